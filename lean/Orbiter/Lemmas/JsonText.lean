/-
  The syntax layer reads the marshaller's text back (C15, last step of the round trip): for every tree whose strings are
  printable ASCII, whose numbers are canonical decimals and whose objects have distinct keys, `parseJsonWhole (render t) = some t`.
-/
import Orbiter.Lemmas.Encode
namespace Orbiter

def srcOf (l : Bytes) : Src := ByteArray.mk l.toArray

theorem size_srcOf (l : Bytes) : (srcOf l).size = l.length := by
  simp [srcOf, ByteArray.size]

theorem at_srcOf (l : Bytes) (i : Nat) : (srcOf l).at i = l[i]? := by
  unfold Src.at
  split
  · rename_i h
    have h' : i < l.length := by simpa [size_srcOf] using h
    simp [srcOf, ByteArray.get, h']
  · rename_i h
    have h' : ¬ i < l.length := by simpa [size_srcOf] using h
    simp [h']

/-- Reading at offset `k` behind a prefix. -/
theorem at_app (pre rest : Bytes) (k : Nat) : (srcOf (pre ++ rest)).at (pre.length + k) = rest[k]? := by
  rw [at_srcOf, List.getElem?_append_right (by omega)]
  congr 1; omega

theorem at_app0 (pre rest : Bytes) : (srcOf (pre ++ rest)).at pre.length = rest[0]? := by
  have := at_app pre rest 0
  simpa using this

theorem renderChar_raw (c : Char) (hp : asciiPrintable c = true) (hr : rawChar c = true) : renderChar c = [UInt8.ofNat c.toNat] := by
  unfold asciiPrintable at hp
  simp only [Bool.and_eq_true, decide_eq_true_eq] at hp
  unfold rawChar at hr
  have hlt : c.toNat < 0x80 := by omega
  simp only [hlt, ↓reduceIte, Bool.not_eq_true', Bool.or_eq_false_iff, beq_eq_false_iff_ne, ne_eq, decide_eq_false_iff_not] at hr
  obtain ⟨⟨⟨⟨⟨h1, h2⟩, h3⟩, h4⟩, h5⟩, h6⟩ := hr
  unfold renderChar
  simp only [hlt, ↓reduceIte, beq_iff_eq, h1, h2, h4, h5, h6, Bool.or_false]
  have : ¬ c.toNat = 8 ∧ ¬ c.toNat = 12 ∧ ¬ c.toNat = 10 ∧ ¬ c.toNat = 13 ∧ ¬ c.toNat = 9 ∧ ¬ c.toNat < 32 := by omega
  simp [this, h4, h5, h6]


/-- The bytes `bs` are what the source holds from position `i` on. -/
def ReadsAt (s : Src) (i : Nat) (bs : Bytes) : Prop := ∀ k (h : k < bs.length), s.at (i + k) = some bs[k]

theorem ReadsAt.nil (s : Src) (i : Nat) : ReadsAt s i [] := by intro k h; simp at h

theorem ReadsAt.append {s : Src} {i : Nat} {a b : Bytes} : ReadsAt s i (a ++ b) ↔ ReadsAt s i a ∧ ReadsAt s (i + a.length) b := by
  constructor
  · intro h
    constructor
    · intro k hk
      have := h k (by simp; omega)
      rw [this, List.getElem_append_left hk]
    · intro k hk
      have := h (a.length + k) (by simp; omega)
      rw [← Nat.add_assoc] at this
      rw [this, List.getElem_append_right (by omega)]
      simp
  · intro ⟨ha, hb⟩ k hk
    by_cases hlt : k < a.length
    · rw [ha k hlt, List.getElem_append_left hlt]
    · have hk' : k - a.length < b.length := by simp at hk; omega
      have := hb (k - a.length) hk'
      have e : i + a.length + (k - a.length) = i + k := by omega
      rw [e] at this
      rw [this, List.getElem_append_right (by omega)]

theorem ReadsAt.cons {s : Src} {i : Nat} {b : UInt8} {bs : Bytes} : ReadsAt s i (b :: bs) ↔ s.at i = some b ∧ ReadsAt s (i + 1) bs := by
  have := @ReadsAt.append s i [b] bs
  simp only [List.singleton_append, List.length_singleton] at this
  rw [this]
  constructor
  · intro ⟨h1, h2⟩
    exact ⟨by simpa using h1 0 (by simp), h2⟩
  · intro ⟨h1, h2⟩
    refine ⟨?_, h2⟩
    intro k hk
    have : k = 0 := by simp at hk; omega
    subst this
    simpa using h1

theorem ReadsAt.head {s : Src} {i : Nat} {b : UInt8} {bs : Bytes} (h : ReadsAt s i (b :: bs)) : s.at i = some b := (ReadsAt.cons.mp h).1

theorem readsAt_srcOf (pre mid suf : Bytes) : ReadsAt (srcOf (pre ++ mid ++ suf)) pre.length mid := by
  intro k hk
  rw [List.append_assoc, at_app, List.getElem?_append_left hk]
  simp [hk]

theorem uint8_ofNat_toNat_lt {n : Nat} (h : n < 256) : (UInt8.ofNat n).toNat = n := by
  simp [UInt8.toNat_ofNat']; omega

/-! ### reading a string literal back -/

theorem decodeRune_ascii (s : Src) (i : Nat) (b : UInt8) (h : s.at i = some b) (hb : b.toNat < 0x80) :
    decodeRune s i = (Char.ofNat b.toNat, 1, true) := by
  unfold decodeRune
  simp only [h, hb, ↓reduceIte]

theorem go_raw (s : Src) (i fuel : Nat) (acc : List Char) (plain : Bool) (c : Char)
    (hp : asciiPrintable c = true) (hr : rawChar c = true) (h : s.at i = some (UInt8.ofNat c.toNat)) :
    scanString.go s (fuel + 1) i acc plain = scanString.go s fuel (i + 1) (c :: acc) plain := by
  unfold asciiPrintable at hp
  simp only [Bool.and_eq_true, decide_eq_true_eq] at hp
  have hn : (UInt8.ofNat c.toNat).toNat = c.toNat := uint8_ofNat_toNat_lt (by omega)
  unfold rawChar at hr
  have hlt : c.toNat < 0x80 := by omega
  simp only [hlt, ↓reduceIte, Bool.not_eq_true', Bool.or_eq_false_iff, beq_eq_false_iff_ne, ne_eq, decide_eq_false_iff_not] at hr
  obtain ⟨⟨⟨⟨⟨h1, h2⟩, h3⟩, h4⟩, h5⟩, h6⟩ := hr
  have q1 : c.toNat ≠ 34 := by
    intro e; apply h1; rw [← Char.ofNat_toNat c, e]
  have q2 : c.toNat ≠ 92 := by
    intro e; apply h2; rw [← Char.ofNat_toNat c, e]
  have e1 : (UInt8.ofNat c.toNat == 34) = false := by
    rw [beq_eq_false_iff_ne]; intro e; have := congrArg UInt8.toNat e; rw [hn] at this; exact q1 this
  have e2 : (UInt8.ofNat c.toNat == 92) = false := by
    rw [beq_eq_false_iff_ne]; intro e; have := congrArg UInt8.toNat e; rw [hn] at this; exact q2 this
  have e3 : ¬ (UInt8.ofNat c.toNat < 32) := by
    rw [UInt8.lt_iff_toNat_lt, hn]; exact h3
  rw [scanString.go]
  simp only [h, e1, e2, e3, Bool.false_eq_true, ↓reduceIte]
  rw [decodeRune_ascii s i _ h (by rw [hn]; exact hlt)]
  simp only [hn, Char.ofNat_toNat, Bool.and_true]

theorem go_close (s : Src) (i fuel : Nat) (acc : List Char) (plain : Bool) (h : s.at i = some 34) :
    scanString.go s (fuel + 1) i acc plain = some (String.ofList acc.reverse, plain, i + 1) := by
  rw [scanString.go]
  simp only [h, beq_self_eq_true, ↓reduceIte]

theorem go_esc2 (s : Src) (i fuel : Nat) (acc : List Char) (plain : Bool) (h0 : s.at i = some 92) :
    (s.at (i + 1) = some 34 → scanString.go s (fuel + 1) i acc plain = scanString.go s fuel (i + 2) ('"' :: acc) false) ∧
    (s.at (i + 1) = some 92 → scanString.go s (fuel + 1) i acc plain = scanString.go s fuel (i + 2) ('\\' :: acc) false) := by
  constructor
  · intro h1
    rw [scanString.go]
    simp only [h0, h1, show ((92 : UInt8) == 34) = false by decide, show ¬ ((92 : UInt8) < 32) by decide, beq_self_eq_true, Bool.false_eq_true, ↓reduceIte]
  · intro h1
    rw [scanString.go]
    simp only [h0, h1, show ((92 : UInt8) == 34) = false by decide, show ¬ ((92 : UInt8) < 32) by decide, beq_self_eq_true, Bool.false_eq_true, ↓reduceIte]


theorem go_u00 (s : Src) (i fuel : Nat) (acc : List Char) (plain : Bool) (x y : UInt8) (n : Nat)
    (h0 : s.at i = some 92) (h1 : s.at (i + 1) = some 117) (h2 : s.at (i + 2) = some 48) (h3 : s.at (i + 3) = some 48)
    (h4 : s.at (i + 4) = some x) (h5 : s.at (i + 5) = some y)
    (hv : (do let vc ← hexVal? (Char.ofNat x.toNat); let vd ← hexVal? (Char.ofNat y.toNat); pure (vc * 16 + vd)) = some n) (hn : n < 0xD800) :
    scanString.go s (fuel + 1) i acc plain = scanString.go s fuel (i + 6) (Char.ofNat n :: acc) false := by
  have hh : hex4 s (i + 2) = some n := by
    unfold hex4
    simp only [h2, show i + 2 + 1 = i + 3 by omega, show i + 2 + 2 = i + 4 by omega, show i + 2 + 3 = i + 5 by omega, h3, h4, h5,
      Option.bind_eq_bind, Option.bind_some]
    have z : hexVal? (Char.ofNat (48 : UInt8).toNat) = some 0 := by decide
    simp only [z, Option.bind_some]
    simp only [Option.bind_eq_bind, Option.pure_def] at hv
    cases hx : hexVal? (Char.ofNat x.toNat) with
    | none => simp [hx] at hv
    | some vx =>
      cases hy : hexVal? (Char.ofNat y.toNat) with
      | none => simp [hx, hy] at hv
      | some vy =>
        simp only [hx, hy, Option.bind_some, Option.some.injEq] at hv ⊢
        simp only [Option.pure_def, Option.some.injEq, Nat.zero_mul, Nat.zero_add]
        exact hv
  rw [scanString.go]
  simp only [h0, h1, show ((92 : UInt8) == 34) = false by decide, show ¬ ((92 : UInt8) < 32) by decide, beq_self_eq_true, Bool.false_eq_true, ↓reduceIte,
    show ((117 : UInt8) == 34) = false by decide, show ((117 : UInt8) == 92) = false by decide, show ((117 : UInt8) == 47) = false by decide,
    show ((117 : UInt8) == 98) = false by decide, show ((117 : UInt8) == 102) = false by decide, show ((117 : UInt8) == 110) = false by decide,
    show ((117 : UInt8) == 114) = false by decide, show ((117 : UInt8) == 116) = false by decide, hh]
  have : ¬ (0xD800 ≤ n) := by omega
  simp [this]


theorem go_char (s : Src) (i fuel : Nat) (acc : List Char) (plain : Bool) (c : Char)
    (hp : asciiPrintable c = true) (h : ReadsAt s i (renderChar c)) :
    scanString.go s (fuel + 1) i acc plain = scanString.go s fuel (i + (renderChar c).length) (c :: acc) (plain && rawChar c) := by
  cases hr : rawChar c with
  | true =>
    rw [renderChar_raw c hp hr] at h ⊢
    simp only [List.length_singleton, Bool.and_true]
    exact go_raw s i fuel acc plain c hp hr h.head
  | false =>
    simp only [Bool.and_false]
    have hp' := hp
    unfold asciiPrintable at hp'
    simp only [Bool.and_eq_true, decide_eq_true_eq] at hp'
    have hlt : c.toNat < 0x80 := by omega
    unfold rawChar at hr
    simp only [hlt, ↓reduceIte, Bool.not_eq_false', Bool.or_eq_true, beq_iff_eq, decide_eq_true_eq] at hr
    have h3 : ¬ c.toNat < 32 := by omega
    rcases hr with ((((hc | hc) | hc) | hc) | hc) | hc
    · subst hc
      have hb : renderChar '"' = [92, 34] := by decide
      rw [hb] at h ⊢
      obtain ⟨a0, h⟩ := ReadsAt.cons.mp h
      exact (go_esc2 s i fuel acc plain a0).1 h.head
    · subst hc
      have hb : renderChar '\\' = [92, 92] := by decide
      rw [hb] at h ⊢
      obtain ⟨a0, h⟩ := ReadsAt.cons.mp h
      exact (go_esc2 s i fuel acc plain a0).2 h.head
    · exact absurd hc h3
    · subst hc
      have hb : renderChar '<' = [92, 117, 48, 48, 51, 99] := by decide
      rw [hb] at h ⊢
      obtain ⟨a0, h⟩ := ReadsAt.cons.mp h
      obtain ⟨a1, h⟩ := ReadsAt.cons.mp h
      obtain ⟨a2, h⟩ := ReadsAt.cons.mp h
      obtain ⟨a3, h⟩ := ReadsAt.cons.mp h
      obtain ⟨a4, h⟩ := ReadsAt.cons.mp h
      obtain ⟨a5, _⟩ := ReadsAt.cons.mp h
      exact go_u00 s i fuel acc plain 51 99 60 a0 a1 a2 a3 a4 a5 (by decide) (by decide)
    · subst hc
      have hb : renderChar '>' = [92, 117, 48, 48, 51, 101] := by decide
      rw [hb] at h ⊢
      obtain ⟨a0, h⟩ := ReadsAt.cons.mp h
      obtain ⟨a1, h⟩ := ReadsAt.cons.mp h
      obtain ⟨a2, h⟩ := ReadsAt.cons.mp h
      obtain ⟨a3, h⟩ := ReadsAt.cons.mp h
      obtain ⟨a4, h⟩ := ReadsAt.cons.mp h
      obtain ⟨a5, _⟩ := ReadsAt.cons.mp h
      exact go_u00 s i fuel acc plain 51 101 62 a0 a1 a2 a3 a4 a5 (by decide) (by decide)
    · subst hc
      have hb : renderChar '&' = [92, 117, 48, 48, 50, 54] := by decide
      rw [hb] at h ⊢
      obtain ⟨a0, h⟩ := ReadsAt.cons.mp h
      obtain ⟨a1, h⟩ := ReadsAt.cons.mp h
      obtain ⟨a2, h⟩ := ReadsAt.cons.mp h
      obtain ⟨a3, h⟩ := ReadsAt.cons.mp h
      obtain ⟨a4, h⟩ := ReadsAt.cons.mp h
      obtain ⟨a5, _⟩ := ReadsAt.cons.mp h
      exact go_u00 s i fuel acc plain 50 54 38 a0 a1 a2 a3 a4 a5 (by decide) (by decide)

/-- The scanner reads a rendered string literal (without its opening quote) back. -/
theorem go_chars (s : Src) (cs : List Char) (hp : cs.all asciiPrintable = true) (i fuel : Nat) (acc : List Char) (plain : Bool)
    (h : ReadsAt s i (cs.flatMap renderChar ++ [34])) (hf : cs.length + 1 ≤ fuel) :
    scanString.go s fuel i acc plain =
      some (String.ofList (acc.reverse ++ cs), plain && cs.all rawChar, i + (cs.flatMap renderChar).length + 1) := by
  induction cs generalizing i fuel acc plain with
  | nil =>
    obtain ⟨f, rfl⟩ : ∃ f, fuel = f + 1 := ⟨fuel - 1, by simp at hf; omega⟩
    simp only [List.flatMap_nil, List.nil_append] at h
    rw [go_close s i f acc plain h.head]
    simp
  | cons c cs ih =>
    obtain ⟨f, rfl⟩ : ∃ f, fuel = f + 1 := ⟨fuel - 1, by simp at hf; omega⟩
    simp only [List.all_cons, Bool.and_eq_true] at hp
    simp only [List.flatMap_cons, List.append_assoc] at h
    obtain ⟨h1, h2⟩ := ReadsAt.append.mp h
    rw [go_char s i f acc plain c hp.1 h1]
    rw [ih hp.2 _ f _ _ h2 (by simp at hf; omega)]
    simp only [List.reverse_cons, List.append_assoc, List.singleton_append, List.all_cons, List.flatMap_cons, List.length_append,
      Bool.and_assoc]
    rw [Nat.add_assoc i]

theorem at_lt_size {s : Src} {k : Nat} {b : UInt8} (h : s.at k = some b) : k < s.size := by
  unfold Src.at at h
  split at h
  · assumption
  · cases h

theorem renderChar_ne_nil (c : Char) : 1 ≤ (renderChar c).length := by
  unfold renderChar
  simp only
  split
  · repeat' split
    all_goals simp
  · split
    · simp
    · split
      · simp
      · unfold String.utf8EncodeChar
        simp only
        repeat' split
        all_goals simp

theorem flatMap_render_length (cs : List Char) : cs.length ≤ (cs.flatMap renderChar).length := by
  induction cs with
  | nil => simp
  | cons c cs ih =>
    simp only [List.flatMap_cons, List.length_append, List.length_cons]
    have := renderChar_ne_nil c
    omega

theorem scanString_rendered (s : Src) (v : String) (hp : v.toList.all asciiPrintable = true) (i : Nat)
    (h : ReadsAt s i (v.toList.flatMap renderChar ++ [34])) :
    scanString s i = some (v, v.toList.all rawChar, i + (v.toList.flatMap renderChar).length + 1) := by
  unfold scanString
  have hq := (ReadsAt.append.mp h).2.head
  have hlt := at_lt_size hq
  have hlen := flatMap_render_length v.toList
  rw [go_chars s v.toList hp i _ [] true h (by omega)]
  simp


/-! ### numbers -/

def byteOf (c : Char) : UInt8 := UInt8.ofNat c.toNat

theorem strBytes_ascii (s : String) (h : ∀ c ∈ s.toList, c.toNat < 128) : strBytes s = s.toList.map byteOf := by
  rw [strBytes_eq]
  generalize s.toList = l at h
  induction l with
  | nil => rfl
  | cons c t ih =>
    simp only [List.flatMap_cons, List.map_cons]
    rw [ih (fun x hx => h x (by simp [hx]))]
    have hc := h c (by simp)
    have : String.utf8EncodeChar c = [byteOf c] := by
      have := utf8EncodeChar_ascii (byteOf c) (by unfold byteOf; rw [uint8_ofNat_toNat_lt (by omega)]; exact hc)
      unfold byteOf at this ⊢
      rw [uint8_ofNat_toNat_lt (by omega), Char.ofNat_toNat] at this
      exact this
    rw [this]; rfl

theorem isDigit_toNat {c : Char} (h : isDigit c = true) : 48 ≤ c.toNat ∧ c.toNat ≤ 57 := by
  rcases isDigit_cases c h with h | h | h | h | h | h | h | h | h | h <;> subst h <;> decide

theorem isDigitB_byteOf {c : Char} (h : isDigit c = true) : isDigitB (byteOf c) = true := by
  have := isDigit_toNat h
  unfold isDigitB byteOf
  simp only [Bool.and_eq_true, decide_eq_true_eq, UInt8.le_iff_toNat_le]
  rw [uint8_ofNat_toNat_lt (by omega)]
  exact ⟨this.1, this.2⟩

/-- Nothing that continues a number literal: end of input or one of `,` `}` `]`. -/
def StopAt (s : Src) (k : Nat) : Prop := s.at k = none ∨ s.at k = some 44 ∨ s.at k = some 125 ∨ s.at k = some 93

theorem skipDigits_go (s : Src) (ds : List Char) (hd : ds.all isDigit = true) (j fuel : Nat) (h : ReadsAt s j (ds.map byteOf))
    (hstop : StopAt s (j + ds.length)) (hf : ds.length + 1 ≤ fuel) : skipDigits.go s fuel j = j + ds.length := by
  induction ds generalizing j fuel with
  | nil =>
    obtain ⟨f, rfl⟩ : ∃ f, fuel = f + 1 := ⟨fuel - 1, by simp at hf; omega⟩
    rw [skipDigits.go]
    simp only [List.length_nil, Nat.add_zero] at hstop ⊢
    rcases hstop with h0 | h0 | h0 | h0 <;> simp [h0, isDigitB]
  | cons c cs ih =>
    obtain ⟨f, rfl⟩ : ∃ f, fuel = f + 1 := ⟨fuel - 1, by simp at hf; omega⟩
    simp only [List.all_cons, Bool.and_eq_true] at hd
    simp only [List.map_cons] at h
    obtain ⟨h0, h1⟩ := ReadsAt.cons.mp h
    rw [skipDigits.go]
    simp only [h0, isDigitB_byteOf hd.1, ↓reduceIte]
    rw [ih hd.2 (j + 1) f h1 (by simp only [List.length_cons] at hstop; rw [show j + 1 + cs.length = j + (cs.length + 1) by omega]; exact hstop) (by simp at hf; omega)]
    simp only [List.length_cons]; omega


theorem skipDigits_eq (s : Src) (ds : List Char) (hd : ds.all isDigit = true) (j : Nat) (h : ReadsAt s j (ds.map byteOf))
    (hstop : StopAt s (j + ds.length)) (hj : j ≤ s.size) : skipDigits s j = j + ds.length := by
  unfold skipDigits
  apply skipDigits_go s ds hd j _ h hstop
  cases ds with
  | nil => simp; omega
  | cons c cs =>
    have := at_lt_size (h (cs.length) (by simp))
    simp only [List.length_cons]; omega

theorem StopAt.ne {s : Src} {k : Nat} (h : StopAt s k) :
    (s.at k == some 46) = false ∧ (s.at k == some 101) = false ∧ (s.at k == some 69) = false ∧ (s.at k == some 45) = false := by
  rcases h with h | h | h | h <;> rw [h] <;> decide

theorem byteOf_digit_cases {c : Char} (h : isDigit c = true) :
    (c = '0' ∧ byteOf c = 48) ∨ (c ≠ '0' ∧ (byteOf c == 48) = false ∧ (49 ≤ byteOf c && byteOf c ≤ 57) = true) := by
  rcases isDigit_cases c h with h | h | h | h | h | h | h | h | h | h <;> subst h <;> decide

/-- An unsigned canonical decimal at `i`, followed by a stop. -/
theorem scanNumber_unsigned (s : Src) (ds : List Char) (hc : canonicalDigits ds = true) (i : Nat) (h : ReadsAt s i (ds.map byteOf))
    (hstop : StopAt s (i + ds.length)) : scanNumber s i = some (i + ds.length) := by
  unfold canonicalDigits allDigits at hc
  simp only [Bool.and_eq_true, Bool.not_eq_true', List.isEmpty_eq_false_iff, ne_eq, Bool.or_eq_true, beq_iff_eq, bne_iff_ne] at hc
  obtain ⟨⟨hne, hall⟩, hcan⟩ := hc
  cases ds with
  | nil => exact absurd rfl hne
  | cons d rest =>
    simp only [List.all_cons, Bool.and_eq_true] at hall
    simp only [List.map_cons] at h
    obtain ⟨h0, h1⟩ := ReadsAt.cons.mp h
    have hi := at_lt_size h0
    obtain ⟨q1, q2, q3, _⟩ := hstop.ne
    rcases byteOf_digit_cases hall.1 with ⟨e, eb⟩ | ⟨e, eb1, eb2⟩
    · -- "0" itself
      subst e
      have hr : rest = [] := by
        rcases hcan with hl | hh
        · simpa using hl
        · simp at hh
      subst hr
      rw [eb] at h0
      have hnm : (s.at i == some 45) = false := by rw [h0]; decide
      simp only [List.length_singleton] at hstop q1 q2 q3 ⊢
      unfold scanNumber
      simp only [hnm, show ((some (48 : UInt8) == some 45)) = false by decide, Bool.false_eq_true, ↓reduceIte, h0, Option.bind_eq_bind, Option.bind_some, beq_self_eq_true, q1, q2, q3, Bool.or_self]
    · have hnm : (s.at i == some 45) = false := by
        rw [h0]
        rcases isDigit_cases d hall.1 with e | e | e | e | e | e | e | e | e | e <;> subst e <;> decide
      have hs := skipDigits_eq s rest hall.2 (i + 1) h1 (by rw [show i + 1 + rest.length = i + (d :: rest).length by simp; omega]; exact hstop) (by omega)
      have e2 : i + 1 + rest.length = i + (d :: rest).length := by simp; omega
      unfold scanNumber
      rw [h0] at hnm
      simp only [hnm, Bool.false_eq_true, ↓reduceIte, h0, Option.bind_eq_bind, Option.bind_some, eb1, eb2, hs, e2, q1, q2, q3, Bool.or_self]


theorem scanNumber_minus (s : Src) (i : Nat) (h : s.at i = some 45) (h' : (s.at (i + 1) == some 45) = false) :
    scanNumber s i = scanNumber s (i + 1) := by
  unfold scanNumber
  simp only [h, beq_self_eq_true, ↓reduceIte, h', Bool.false_eq_true]

/-- What the marshaller writes for a number: a canonical decimal, possibly negative. -/
def numOk (raw : String) : Prop := ∃ ds, canonicalDigits ds = true ∧ (raw.toList = ds ∨ raw.toList = '-' :: ds)

theorem digits_ascii {ds : List Char} (h : ds.all isDigit = true) : ∀ c ∈ ds, c.toNat < 128 := by
  intro c hc
  have := isDigit_toNat (List.all_eq_true.mp h c hc)
  omega

theorem canonical_all {ds : List Char} (h : canonicalDigits ds = true) : ds.all isDigit = true ∧ ds ≠ [] := by
  unfold canonicalDigits allDigits at h
  simp only [Bool.and_eq_true, Bool.not_eq_true', List.isEmpty_eq_false_iff, ne_eq] at h
  exact ⟨h.1.2, h.1.1⟩

theorem scanNumber_rendered (s : Src) (raw : String) (hn : numOk raw) (i : Nat) (h : ReadsAt s i (strBytes raw))
    (hstop : StopAt s (i + (strBytes raw).length)) : scanNumber s i = some (i + (strBytes raw).length) := by
  obtain ⟨ds, hc, hraw⟩ := hn
  obtain ⟨hall, hne⟩ := canonical_all hc
  rcases hraw with hraw | hraw
  · have hb : strBytes raw = ds.map byteOf := by
      rw [strBytes_ascii raw (by rw [hraw]; exact digits_ascii hall), hraw]
    rw [hb] at h hstop ⊢
    simp only [List.length_map] at hstop ⊢
    exact scanNumber_unsigned s ds hc i h hstop
  · have hb : strBytes raw = 45 :: ds.map byteOf := by
      rw [strBytes_ascii raw (by
        rw [hraw]; intro c hcm
        simp only [List.mem_cons] at hcm
        rcases hcm with rfl | hcm
        · decide
        · exact digits_ascii hall c hcm), hraw]
      rfl
    rw [hb] at h hstop ⊢
    simp only [List.length_cons, List.length_map] at hstop ⊢
    obtain ⟨h0, h1⟩ := ReadsAt.cons.mp h
    have hd1 : (s.at (i + 1) == some 45) = false := by
      cases ds with
      | nil => exact absurd rfl hne
      | cons d rest =>
        simp only [List.map_cons] at h1
        rw [h1.head]
        simp only [List.all_cons, Bool.and_eq_true] at hall
        rcases isDigit_cases d hall.1 with e | e | e | e | e | e | e | e | e | e <;> subst e <;> decide
    rw [scanNumber_minus s i h0 hd1, scanNumber_unsigned s ds hc (i + 1) h1 (by rw [show i + 1 + ds.length = i + (ds.length + 1) by omega]; exact hstop)]
    congr 1; omega

theorem filterMap_range_reads (s : Src) (i : Nat) (bs : Bytes) (h : ReadsAt s i bs) (n : Nat) (hn : n ≤ bs.length) :
    (List.range n).filterMap (fun k => s.at (i + k)) = bs.take n := by
  induction n with
  | zero => simp
  | succ n ih =>
    rw [List.range_succ, List.filterMap_append, ih (by omega)]
    simp only [List.filterMap_cons, List.filterMap_nil, h n (by omega)]
    rw [List.take_succ_eq_append_getElem (by omega)]

theorem sliceBytes_reads (s : Src) (i : Nat) (bs : Bytes) (h : ReadsAt s i bs) : sliceBytes s i (i + bs.length) = bs := by
  unfold sliceBytes
  rw [show i + bs.length - i = bs.length by omega, filterMap_range_reads s i bs h bs.length (Nat.le_refl _)]
  simp

theorem byteOf_toNat_char (c : Char) (h : c.toNat < 128) : Char.ofNat (byteOf c).toNat = c := by
  unfold byteOf
  rw [uint8_ofNat_toNat_lt (by omega), Char.ofNat_toNat]

theorem sliceString_rendered (s : Src) (raw : String) (hn : numOk raw) (i : Nat) (h : ReadsAt s i (strBytes raw)) :
    sliceString s i (i + (strBytes raw).length) = raw := by
  have hascii : ∀ c ∈ raw.toList, c.toNat < 128 := by
    obtain ⟨ds, hc, hraw⟩ := hn
    obtain ⟨hall, _⟩ := canonical_all hc
    rcases hraw with hraw | hraw
    · rw [hraw]; exact digits_ascii hall
    · rw [hraw]; intro c hcm
      simp only [List.mem_cons] at hcm
      rcases hcm with rfl | hcm
      · decide
      · exact digits_ascii hall c hcm
  unfold sliceString
  rw [sliceBytes_reads s i _ h, strBytes_ascii raw hascii, List.map_map]
  have : raw.toList.map ((fun b => Char.ofNat b.toNat) ∘ byteOf) = raw.toList := by
    have : raw.toList.map ((fun b => Char.ofNat b.toNat) ∘ byteOf) = raw.toList.map id :=
      List.map_congr_left (fun c hc => byteOf_toNat_char c (hascii c hc))
    rw [this, List.map_id]
  rw [this]
  simp


/-! ### white space, literals, objects without repeated keys -/

theorem skipWs_go_id (s : Src) (i fuel : Nat) (h : ∀ c, s.at i = some c → isWs c = false) : skipWs.go s fuel i = i := by
  cases fuel with
  | zero => rw [skipWs.go]
  | succ f =>
    rw [skipWs.go]
    cases hc : s.at i with
    | none => rfl
    | some c => simp [h c hc]

theorem skipWs_id (s : Src) (i : Nat) (h : ∀ c, s.at i = some c → isWs c = false) : skipWs s i = i := by
  unfold skipWs
  exact skipWs_go_id s i _ h

theorem skipWs_stop (s : Src) (i : Nat) (h : StopAt s i) : skipWs s i = i := by
  apply skipWs_id
  intro c hc
  rcases h with h | h | h | h <;> rw [h] at hc
  · cases hc
  all_goals (simp only [Option.some.injEq] at hc; subst hc; decide)

theorem skipWs_byte (s : Src) (i : Nat) (b : UInt8) (h : s.at i = some b) (hb : isWs b = false) : skipWs s i = i := by
  apply skipWs_id
  intro c hc
  rw [h] at hc
  simp only [Option.some.injEq] at hc
  subst hc; exact hb

theorem matchLit_reads (s : Src) (i : Nat) (lit : String) (h : ReadsAt s i (strBytes lit)) : matchLit s i lit = true := by
  unfold matchLit
  simp only [List.all_eq_true, List.mem_range]
  intro k hk
  rw [h k hk]
  simp [hk]

def keysDistinct : List (String × Json) → Bool
  | [] => true
  | kv :: rest => !(rest.any (·.1 == kv.1)) && keysDistinct rest

theorem dedupLast_go (acc rest : List (String × Json)) (h : keysDistinct (acc ++ rest) = true) :
    rest.foldl (fun acc (kv : String × Json) => (acc.filter (·.1 != kv.1)) ++ [kv]) acc = acc ++ rest := by
  induction rest generalizing acc with
  | nil => simp
  | cons kv rest ih =>
    simp only [List.foldl_cons]
    have hf : acc.filter (·.1 != kv.1) = acc := by
      rw [List.filter_eq_self]
      intro x hx
      -- x ∈ acc, and kv occurs later: the keys differ
      induction acc with
      | nil => cases hx
      | cons a t iht =>
        simp only [List.cons_append, keysDistinct, Bool.and_eq_true, Bool.not_eq_true', List.any_eq_false, List.mem_append, List.mem_cons] at h
        simp only [List.mem_cons] at hx
        rcases hx with rfl | hx
        · have := h.1 kv (Or.inr (Or.inl rfl))
          simp only [beq_iff_eq] at this
          simp only [bne_iff_ne, ne_eq]
          intro e; exact this e.symm
        · exact iht (by simpa using h.2) hx
    rw [hf, ih (acc ++ [kv]) (by simpa using h)]
    simp

theorem dedupLast_distinct (fs : List (String × Json)) (h : keysDistinct fs = true) : dedupLast fs = fs := by
  unfold dedupLast
  have := dedupLast_go [] fs (by simpa using h)
  simpa using this


/-! ### the trees the marshaller writes -/

def numOkB (raw : String) : Bool := canonicalDigits (stripMinus raw.toList)

mutual
/-- Strings are printable ASCII with an accurate flag, numbers canonical decimals, object keys pairwise distinct. -/
def Json.printable : Json → Bool
  | .null => true
  | .bool _ => true
  | .num raw => numOkB raw
  | .str v p => strOk v && (p == v.toList.all rawChar)
  | .arr items => printableList items
  | .obj fs => printableFields fs && keysDistinct fs
def printableList : List Json → Bool
  | [] => true
  | x :: xs => x.printable && printableList xs
def printableFields : List (String × Json) → Bool
  | [] => true
  | (k, v) :: fs => strOk k && v.printable && printableFields fs
end

mutual
def Json.height : Json → Nat
  | .arr items => 1 + heightList items
  | .obj fs => 1 + heightFields fs
  | _ => 0
def heightList : List Json → Nat
  | [] => 0
  | x :: xs => max x.height (heightList xs)
def heightFields : List (String × Json) → Nat
  | [] => 0
  | (_, v) :: fs => max v.height (heightFields fs)
end

theorem numOk_of_B {raw : String} (h : numOkB raw = true) : numOk raw := by
  unfold numOkB at h
  unfold stripMinus at h
  split at h
  · rename_i r heq
    exact ⟨r, h, Or.inr heq⟩
  · exact ⟨raw.toList, h, Or.inl rfl⟩

theorem strBytes_pos_of_numOk {raw : String} (h : numOk raw) : 1 ≤ (strBytes raw).length := by
  obtain ⟨ds, hc, hraw⟩ := h
  obtain ⟨hall, hne⟩ := canonical_all hc
  have hascii : ∀ c ∈ raw.toList, c.toNat < 128 := by
    rcases hraw with hraw | hraw
    · rw [hraw]; exact digits_ascii hall
    · rw [hraw]; intro c hcm
      simp only [List.mem_cons] at hcm
      rcases hcm with rfl | hcm
      · decide
      · exact digits_ascii hall c hcm
  rw [strBytes_ascii raw hascii, List.length_map]
  rcases hraw with hraw | hraw <;> rw [hraw]
  · cases ds with
    | nil => exact absurd rfl hne
    | cons _ _ => simp
  · simp

theorem render_pos (j : Json) (h : j.printable = true) : 1 ≤ j.render.length := by
  cases j with
  | null => simp [Json.render]
  | bool b => cases b <;> simp [Json.render]
  | num raw =>
    simp only [Json.render]
    exact strBytes_pos_of_numOk (numOk_of_B (by simpa [Json.printable] using h))
  | str v p => simp [Json.render, renderString]
  | arr items => simp [Json.render]
  | obj fs => simp [Json.render]

/-- The first byte of a number literal: a digit or the minus sign. -/
theorem num_head (raw : String) (h : numOk raw) : ∃ b rest, strBytes raw = b :: rest ∧ (b = 45 ∨ isDigitB b = true) := by
  obtain ⟨ds, hc, hraw⟩ := h
  obtain ⟨hall, hne⟩ := canonical_all hc
  have hascii : ∀ c ∈ raw.toList, c.toNat < 128 := by
    rcases hraw with hraw | hraw
    · rw [hraw]; exact digits_ascii hall
    · rw [hraw]; intro c hcm
      simp only [List.mem_cons] at hcm
      rcases hcm with rfl | hcm
      · decide
      · exact digits_ascii hall c hcm
  rw [strBytes_ascii raw hascii]
  rcases hraw with hraw | hraw <;> rw [hraw]
  · cases ds with
    | nil => exact absurd rfl hne
    | cons d rest =>
      simp only [List.all_cons, Bool.and_eq_true] at hall
      exact ⟨byteOf d, rest.map byteOf, rfl, Or.inr (isDigitB_byteOf hall.1)⟩
  · exact ⟨byteOf '-', ds.map byteOf, rfl, Or.inl (by decide)⟩


/-- First byte of a rendered value: never white space, never a closing bracket. -/
theorem render_head (j : Json) (h : j.printable = true) :
    ∃ b rest, j.render = b :: rest ∧ isWs b = false ∧ b ≠ 93 ∧ b ≠ 125 := by
  cases j with
  | null => exact ⟨110, _, rfl, by decide, by decide, by decide⟩
  | bool b => cases b <;> exact ⟨_, _, rfl, by decide, by decide, by decide⟩
  | num raw =>
    obtain ⟨b, rest, hb, hd⟩ := num_head raw (numOk_of_B (by simpa [Json.printable] using h))
    refine ⟨b, rest, by simp [Json.render, hb], ?_⟩
    rcases hd with rfl | hd
    · decide
    · unfold isDigitB at hd
      simp only [Bool.and_eq_true, decide_eq_true_eq] at hd
      have h1 : 48 ≤ b.toNat := UInt8.le_iff_toNat_le.mp hd.1
      have h2 : b.toNat ≤ 57 := UInt8.le_iff_toNat_le.mp hd.2
      refine ⟨?_, ?_, ?_⟩
      · unfold isWs
        have : b ≠ 32 ∧ b ≠ 9 ∧ b ≠ 13 ∧ b ≠ 10 := by
          refine ⟨?_, ?_, ?_, ?_⟩ <;> (intro e; subst e; revert h1; decide)
        simp [this.1, this.2.1, this.2.2.1, this.2.2.2]
      · intro e; subst e; revert h2; decide
      · intro e; subst e; revert h2; decide
  | str v p => exact ⟨34, _, rfl, by decide, by decide, by decide⟩
  | arr items => exact ⟨91, _, rfl, by decide, by decide, by decide⟩
  | obj fs => exact ⟨123, _, rfl, by decide, by decide, by decide⟩

theorem strBytes_null : strBytes "null" = [110, 117, 108, 108] := by decide
theorem strBytes_true : strBytes "true" = [116, 114, 117, 101] := by decide
theorem strBytes_false : strBytes "false" = [102, 97, 108, 115, 101] := by decide


theorem pv_null (s : Src) (i fuel depth : Nat) (hr : ReadsAt s i Json.null.render) :
    parseValue s (fuel + 1) depth i = some (.null, i + Json.null.render.length) := by
  have hr' : ReadsAt s i (strBytes "null") := by rw [strBytes_null]; exact hr
  have h0 : s.at i = some 110 := hr.head
  rw [parseValue]
  simp only [h0, matchLit_reads s i "null" hr', ↓reduceIte, show ((110 : UInt8) == 123) = false by decide, show ((110 : UInt8) == 91) = false by decide,
    show ((110 : UInt8) == 34) = false by decide, show ((110 : UInt8) == 116) = false by decide, show ((110 : UInt8) == 102) = false by decide,
    beq_self_eq_true, Bool.false_eq_true]
  rfl

theorem pv_bool (b : Bool) (s : Src) (i fuel depth : Nat) (hr : ReadsAt s i (Json.bool b).render) :
    parseValue s (fuel + 1) depth i = some (.bool b, i + (Json.bool b).render.length) := by
  cases b with
  | true =>
    have hr' : ReadsAt s i (strBytes "true") := by rw [strBytes_true]; exact hr
    have h0 : s.at i = some 116 := hr.head
    rw [parseValue]
    simp only [h0, matchLit_reads s i "true" hr', ↓reduceIte, show ((116 : UInt8) == 123) = false by decide, show ((116 : UInt8) == 91) = false by decide,
      show ((116 : UInt8) == 34) = false by decide, beq_self_eq_true, Bool.false_eq_true]
    rfl
  | false =>
    have hr' : ReadsAt s i (strBytes "false") := by rw [strBytes_false]; exact hr
    have h0 : s.at i = some 102 := hr.head
    rw [parseValue]
    simp only [h0, matchLit_reads s i "false" hr', ↓reduceIte, show ((102 : UInt8) == 123) = false by decide, show ((102 : UInt8) == 91) = false by decide,
      show ((102 : UInt8) == 34) = false by decide, show ((102 : UInt8) == 116) = false by decide, beq_self_eq_true, Bool.false_eq_true]
    rfl

theorem pv_str (v : String) (p : Bool) (s : Src) (i fuel depth : Nat) (hp : (Json.str v p).printable = true) (hr : ReadsAt s i (Json.str v p).render) :
    parseValue s (fuel + 1) depth i = some (.str v p, i + (Json.str v p).render.length) := by
  simp only [Json.printable, Bool.and_eq_true, beq_iff_eq] at hp
  simp only [Json.render, renderString] at hr ⊢
  obtain ⟨h0, h1⟩ := ReadsAt.cons.mp hr
  rw [parseValue]
  simp only [h0, ↓reduceIte, show ((34 : UInt8) == 123) = false by decide, show ((34 : UInt8) == 91) = false by decide, beq_self_eq_true, Bool.false_eq_true]
  rw [scanString_rendered s v hp.1 (i + 1) h1]
  simp only [List.length_cons, List.length_append, List.length_nil, ← hp.2]
  congr 2; omega

theorem pv_num (raw : String) (s : Src) (i fuel depth : Nat) (hp : (Json.num raw).printable = true) (hr : ReadsAt s i (Json.num raw).render)
    (hs : StopAt s (i + (Json.num raw).render.length)) :
    parseValue s (fuel + 1) depth i = some (.num raw, i + (Json.num raw).render.length) := by
  have hn := numOk_of_B (by simpa [Json.printable] using hp)
  simp only [Json.render] at hr hs ⊢
  obtain ⟨b, rest, hb, hd⟩ := num_head raw hn
  have h0 : s.at i = some b := by rw [hb] at hr; exact hr.head
  have hne : (b == 123) = false ∧ (b == 91) = false ∧ (b == 34) = false ∧ (b == 116) = false ∧ (b == 102) = false ∧ (b == 110) = false := by
    rcases hd with rfl | hd
    · decide
    · unfold isDigitB at hd
      simp only [Bool.and_eq_true, decide_eq_true_eq] at hd
      have h1 : 48 ≤ b.toNat := UInt8.le_iff_toNat_le.mp hd.1
      have h2 : b.toNat ≤ 57 := UInt8.le_iff_toNat_le.mp hd.2
      refine ⟨?_, ?_, ?_, ?_, ?_, ?_⟩ <;> (rw [beq_eq_false_iff_ne]; intro e; subst e; revert h1 h2; decide)
  rw [parseValue]
  simp only [h0, hne.1, hne.2.1, hne.2.2.1, hne.2.2.2.1, hne.2.2.2.2.1, hne.2.2.2.2.2, Bool.false_eq_true, ↓reduceIte,
    scanNumber_rendered s raw hn i hr hs, sliceString_rendered s raw hn i hr]


/-! ### values, items, fields -/

theorem renderItems_cons2 (x y : Json) (ys : List Json) : renderItems (x :: y :: ys) = x.render ++ 44 :: renderItems (y :: ys) := by
  simp [renderItems]
theorem renderItems_one (x : Json) : renderItems [x] = x.render := by simp [renderItems]
theorem renderFields_cons2 (k : String) (v : Json) (kv : String × Json) (fs : List (String × Json)) :
    renderFields ((k, v) :: kv :: fs) = renderString k ++ 58 :: v.render ++ 44 :: renderFields (kv :: fs) := by
  simp [renderFields]
theorem renderFields_one (k : String) (v : Json) : renderFields [(k, v)] = renderString k ++ 58 :: v.render := by simp [renderFields]

theorem stop_of_at {s : Src} {k : Nat} (h : s.at k = some 44 ∨ s.at k = some 125 ∨ s.at k = some 93) : StopAt s k := Or.inr h

mutual
theorem pv_render (j : Json) (s : Src) (i fuel depth : Nat) (hp : j.printable = true) (hr : ReadsAt s i j.render)
    (hs : StopAt s (i + j.render.length)) (hf : j.render.length ≤ fuel) (hd : depth + j.height ≤ maxDepth) :
    parseValue s fuel depth i = some (j, i + j.render.length) := by
  have hpos := render_pos j hp
  obtain ⟨f, rfl⟩ : ∃ f, fuel = f + 1 := ⟨fuel - 1, by omega⟩
  match j with
  | .null => exact pv_null s i f depth hr
  | .bool b => exact pv_bool b s i f depth hr
  | .num raw => exact pv_num raw s i f depth hp hr hs
  | .str v p => exact pv_str v p s i f depth hp hr
  | .arr items =>
    simp only [Json.render] at hr hs hf ⊢
    simp only [Json.height] at hd
    simp only [Json.printable] at hp
    obtain ⟨h0, h1⟩ := ReadsAt.cons.mp hr
    simp only [List.append_eq] at h1
    have hdep : ¬ (depth ≥ maxDepth) := by omega
    rw [parseValue]
    simp only [h0, show ((91 : UInt8) == 123) = false by decide, beq_self_eq_true, Bool.false_eq_true, ↓reduceIte, hdep]
    match items with
    | [] =>
      simp only [renderItems, List.nil_append] at h1 ⊢
      have h93 := h1.head
      rw [skipWs_byte s (i + 1) 93 h93 (by decide)]
      simp only [h93, beq_self_eq_true, ↓reduceIte]
      simp [Nat.add_assoc]
    | x :: xs =>
      obtain ⟨b, rest, hb, hws, hn93, _⟩ := render_head x (by simp only [printableList, Bool.and_eq_true] at hp; exact hp.1)
      have hfirst : s.at (i + 1) = some b := by
        have : ∃ r, renderItems (x :: xs) ++ [93] = b :: r := by
          cases xs with
          | nil => exact ⟨rest ++ [93], by rw [renderItems_one, hb]; rfl⟩
          | cons y ys => exact ⟨rest ++ 44 :: renderItems (y :: ys) ++ [93], by rw [renderItems_cons2, hb]; simp⟩
        obtain ⟨r, hr2⟩ := this
        rw [hr2] at h1
        exact h1.head
      rw [skipWs_byte s (i + 1) b hfirst hws]
      have hnb : (s.at (i + 1) == some 93) = false := by
        rw [hfirst]; simpa using hn93
      simp only [hnb, Bool.false_eq_true, ↓reduceIte]
      rw [pitems_render (x :: xs) (by simp) s (i + 1) f (depth + 1) [] hp h1 (by simp only [List.length_cons, List.length_append, List.length_nil] at hf; omega) (by omega)]
      simp only [List.reverse_nil, List.nil_append, List.length_cons, List.length_append, List.length_nil]
      congr 2; omega
  | .obj fs =>
    simp only [Json.render] at hr hs hf ⊢
    simp only [Json.height] at hd
    simp only [Json.printable, Bool.and_eq_true] at hp
    obtain ⟨h0, h1⟩ := ReadsAt.cons.mp hr
    simp only [List.append_eq] at h1
    have hdep : ¬ (depth ≥ maxDepth) := by omega
    rw [parseValue]
    simp only [h0, beq_self_eq_true, ↓reduceIte, hdep]
    match fs with
    | [] =>
      simp only [renderFields, List.nil_append] at h1 ⊢
      have h125 := h1.head
      rw [skipWs_byte s (i + 1) 125 h125 (by decide)]
      simp only [h125, beq_self_eq_true, ↓reduceIte]
      simp [Nat.add_assoc]
    | (k, v) :: rest =>
      have hfirst : s.at (i + 1) = some 34 := by
        have : ∃ r, renderFields ((k, v) :: rest) ++ [125] = 34 :: r := by
          cases rest with
          | nil => exact ⟨_, by rw [renderFields_one]; simp [renderString]; rfl⟩
          | cons kv fs' => exact ⟨_, by rw [renderFields_cons2]; simp [renderString]; rfl⟩
        obtain ⟨r, hr2⟩ := this
        rw [hr2] at h1
        exact h1.head
      rw [skipWs_byte s (i + 1) 34 hfirst (by decide)]
      have hnb : (s.at (i + 1) == some 125) = false := by rw [hfirst]; decide
      simp only [hnb, Bool.false_eq_true, ↓reduceIte]
      rw [pfields_render ((k, v) :: rest) (by simp) s (i + 1) f (depth + 1) [] hp.1 h1 (by simp only [List.length_cons, List.length_append, List.length_nil] at hf; omega) (by omega)]
      simp only [List.reverse_nil, List.nil_append, List.length_cons, List.length_append, List.length_nil, dedupLast_distinct _ hp.2]
      congr 2; omega

theorem pitems_render (items : List Json) (hne : items ≠ []) (s : Src) (i fuel depth : Nat) (acc : List Json) (hp : printableList items = true)
    (hr : ReadsAt s i (renderItems items ++ [93])) (hf : (renderItems items).length + 1 ≤ fuel) (hd : depth + heightList items ≤ maxDepth) :
    parseItems s fuel depth i acc = some (.arr (acc.reverse ++ items), i + (renderItems items).length + 1) := by
  obtain ⟨f, rfl⟩ : ∃ f, fuel = f + 1 := ⟨fuel - 1, by omega⟩
  match items with
  | [] => exact absurd rfl hne
  | [x] =>
    simp only [printableList, Bool.and_true] at hp
    rw [renderItems_one] at hr hf ⊢
    simp only [heightList, Nat.max_zero] at hd
    obtain ⟨hx, hend⟩ := ReadsAt.append.mp hr
    have h93 := hend.head
    rw [parseItems, pv_render x s i f depth hp hx (stop_of_at (Or.inr (Or.inr h93))) (by omega) (by simpa using hd)]
    simp only
    rw [skipWs_byte s _ 93 h93 (by decide)]
    simp only [h93, show ((some (93 : UInt8)) == some 44) = false by decide, Bool.false_eq_true, ↓reduceIte, beq_self_eq_true, List.reverse_cons]
  | x :: y :: ys =>
    simp only [printableList, Bool.and_eq_true] at hp
    rw [renderItems_cons2] at hr hf ⊢
    simp only [heightList] at hd
    simp only [List.append_assoc, List.cons_append] at hr
    obtain ⟨hx, hrest⟩ := ReadsAt.append.mp hr
    obtain ⟨h44, hys⟩ := ReadsAt.cons.mp hrest
    rw [parseItems, pv_render x s i f depth hp.1 hx (stop_of_at (Or.inl h44)) (by simp only [List.length_append, List.length_cons] at hf; omega)
      (by have := Nat.le_max_left x.height (max y.height (heightList ys)); omega)]
    simp only
    rw [skipWs_byte s _ 44 h44 (by decide)]
    simp only [h44, beq_self_eq_true, ↓reduceIte]
    obtain ⟨b, rest, hb, hws, _, _⟩ := render_head y hp.2.1
    have hfirst : s.at (i + x.render.length + 1) = some b := by
      have : ∃ r, renderItems (y :: ys) ++ [93] = b :: r := by
        cases ys with
        | nil => exact ⟨rest ++ [93], by rw [renderItems_one, hb]; rfl⟩
        | cons z zs => exact ⟨rest ++ 44 :: renderItems (z :: zs) ++ [93], by rw [renderItems_cons2, hb]; simp⟩
      obtain ⟨r, hr2⟩ := this
      rw [hr2] at hys
      exact hys.head
    rw [skipWs_byte s _ b hfirst hws]
    rw [pitems_render (y :: ys) (by simp) s (i + x.render.length + 1) f depth (x :: acc) (by simp only [printableList, Bool.and_eq_true]; exact hp.2) hys
      (by simp only [List.length_append, List.length_cons] at hf; omega)
      (by have := Nat.le_max_right x.height (max y.height (heightList ys)); simp only [heightList]; omega)]
    simp only [List.reverse_cons, List.append_assoc, List.singleton_append, List.length_append, List.length_cons]
    congr 2; omega

theorem pfields_render (fs : List (String × Json)) (hne : fs ≠ []) (s : Src) (i fuel depth : Nat) (acc : List (String × Json)) (hp : printableFields fs = true)
    (hr : ReadsAt s i (renderFields fs ++ [125])) (hf : (renderFields fs).length + 1 ≤ fuel) (hd : depth + heightFields fs ≤ maxDepth) :
    parseFields s fuel depth i acc = some (.obj (dedupLast (acc.reverse ++ fs)), i + (renderFields fs).length + 1) := by
  obtain ⟨f, rfl⟩ : ∃ f, fuel = f + 1 := ⟨fuel - 1, by omega⟩
  match fs with
  | [] => exact absurd rfl hne
  | [(k, v)] =>
    simp only [printableFields, Bool.and_true, Bool.and_eq_true] at hp
    rw [renderFields_one] at hr hf ⊢
    simp only [heightFields, Nat.max_zero] at hd
    simp only [List.append_assoc, List.cons_append] at hr
    -- the key
    obtain ⟨hk, hr⟩ := ReadsAt.append.mp hr
    have hkq : s.at i = some 34 := by simp only [renderString] at hk; exact hk.head
    have hkbody : ReadsAt s (i + 1) (k.toList.flatMap renderChar ++ [34]) := by
      simp only [renderString] at hk
      exact (ReadsAt.cons.mp hk).2
    have hklen : (renderString k).length = (k.toList.flatMap renderChar).length + 2 := by simp [renderString]
    obtain ⟨h58, hv⟩ := ReadsAt.cons.mp hr
    obtain ⟨hv, hend⟩ := ReadsAt.append.mp hv
    have h125 := hend.head
    obtain ⟨b, rest, hb, hws, _, _⟩ := render_head v hp.2
    have hvfirst : s.at (i + (renderString k).length + 1) = some b := by rw [hb] at hv; exact hv.head
    rw [parseFields]
    simp only [hkq, bne_self_eq_false, Bool.false_eq_true, ↓reduceIte, scanString_rendered s k hp.1 (i + 1) hkbody]
    have e1 : i + 1 + (k.toList.flatMap renderChar).length + 1 = i + (renderString k).length := by omega
    simp only [e1, skipWs_byte s _ 58 h58 (by decide), h58, skipWs_byte s _ b hvfirst hws, bne_self_eq_false, Bool.false_eq_true, ↓reduceIte]
    have hlenf : (renderString k ++ 58 :: v.render).length = (renderString k).length + 1 + v.render.length := by
      simp only [List.length_append, List.length_cons]; omega
    rw [pv_render v s _ f depth hp.2 hv (stop_of_at (Or.inr (Or.inl h125))) (by omega) (by simpa using hd)]
    simp only
    rw [skipWs_byte s _ 125 h125 (by decide)]
    simp only [h125, show ((some (125 : UInt8)) == some 44) = false by decide, Bool.false_eq_true, ↓reduceIte, beq_self_eq_true, List.reverse_cons, hlenf]
    congr 2; omega
  | (k, v) :: (k2, v2) :: rest =>
    have hp2 : printableFields ((k2, v2) :: rest) = true := by
      simp only [printableFields, Bool.and_eq_true] at hp ⊢; exact hp.2
    simp only [printableFields, Bool.and_eq_true] at hp
    rw [renderFields_cons2] at hr hf ⊢
    rw [heightFields] at hd
    simp only [List.append_assoc, List.cons_append] at hr
    obtain ⟨hk, hr⟩ := ReadsAt.append.mp hr
    have hkq : s.at i = some 34 := by simp only [renderString] at hk; exact hk.head
    have hkbody : ReadsAt s (i + 1) (k.toList.flatMap renderChar ++ [34]) := by
      simp only [renderString] at hk
      exact (ReadsAt.cons.mp hk).2
    have hklen : (renderString k).length = (k.toList.flatMap renderChar).length + 2 := by simp [renderString]
    obtain ⟨h58, hv⟩ := ReadsAt.cons.mp hr
    obtain ⟨hv, hrest⟩ := ReadsAt.append.mp hv
    obtain ⟨h44, hnext⟩ := ReadsAt.cons.mp hrest
    obtain ⟨b, rest', hb, hws, _, _⟩ := render_head v hp.1.2
    have hvfirst : s.at (i + (renderString k).length + 1) = some b := by rw [hb] at hv; exact hv.head
    rw [parseFields]
    simp only [hkq, bne_self_eq_false, Bool.false_eq_true, ↓reduceIte, scanString_rendered s k hp.1.1 (i + 1) hkbody]
    have e1 : i + 1 + (k.toList.flatMap renderChar).length + 1 = i + (renderString k).length := by omega
    simp only [e1, skipWs_byte s _ 58 h58 (by decide), h58, skipWs_byte s _ b hvfirst hws, bne_self_eq_false, Bool.false_eq_true, ↓reduceIte]
    rw [pv_render v s _ f depth hp.1.2 hv (stop_of_at (Or.inl h44)) (by simp only [List.length_append, List.length_cons] at hf; omega)
      (by have := Nat.le_max_left v.height (heightFields ((k2, v2) :: rest)); omega)]
    simp only
    rw [skipWs_byte s _ 44 h44 (by decide)]
    simp only [h44, beq_self_eq_true, ↓reduceIte]
    -- the next field starts with a quote
    have hq : s.at (i + (renderString k).length + 1 + v.render.length + 1) = some 34 := by
      have : ∃ r, renderFields ((k2, v2) :: rest) ++ [125] = 34 :: r := by
        cases rest with
        | nil => exact ⟨_, by rw [renderFields_one]; simp [renderString]; rfl⟩
        | cons kv3 fs' => exact ⟨_, by rw [renderFields_cons2]; simp [renderString]; rfl⟩
      obtain ⟨r, hr2⟩ := this
      rw [hr2] at hnext
      exact hnext.head
    rw [skipWs_byte s _ 34 hq (by decide)]
    rw [pfields_render ((k2, v2) :: rest) (by simp) s _ f depth ((k, v) :: acc) hp2 hnext
      (by simp only [List.length_append, List.length_cons] at hf; omega)
      (by have := Nat.le_max_right v.height (heightFields ((k2, v2) :: rest)); omega)]
    simp only [List.reverse_cons, List.append_assoc, List.singleton_append, List.length_append, List.length_cons]
    congr 2; omega
end


/-- **The syntax layer reads the rendered text back.** -/
theorem parseJsonWhole_render (j : Json) (hp : j.printable = true) (hh : j.height ≤ maxDepth) : parseJsonWhole j.render = some j := by
  unfold parseJsonWhole
  have hs : (ByteArray.mk j.render.toArray : Src) = srcOf j.render := rfl
  simp only [hs]
  have hr : ReadsAt (srcOf j.render) 0 j.render := by
    have := readsAt_srcOf [] j.render []
    simpa using this
  obtain ⟨b, rest, hb, hws, _, _⟩ := render_head j hp
  have h0 : (srcOf j.render).at 0 = some b := by rw [hb] at hr ⊢; exact hr.head
  have hend : (srcOf j.render).at (0 + j.render.length) = none := by
    rw [at_srcOf]; simp
  rw [skipWs_byte _ 0 b h0 hws]
  rw [pv_render j (srcOf j.render) 0 ((srcOf j.render).size + 2) 0 hp hr (Or.inl hend) (by rw [size_srcOf]; omega) (by omega)]
  simp only [Nat.zero_add]
  rw [skipWs_stop _ _ (Or.inl (by simpa using hend)), size_srcOf]
  simp


/-! ### the marshalled tree is printable -/

theorem encStr_printable (s : String) (h : strOk s = true) : (encStr s).printable = true := by
  simp [encStr, Json.printable, h]

theorem stripMinus_natDigits (n : Nat) : stripMinus (natDigits n) = natDigits n := by
  apply stripMinus_of_head
  intro hh
  have := natDigits_head_digit n '-' (by rw [hh]; rfl)
  exact absurd this (by decide)

theorem encUint_printable (n : Nat) : (encUint n).printable = true := by
  simp [encUint, Json.printable, numOkB, natToDec_toList, stripMinus_natDigits, natDigits_canonical]

theorem intToDec_numOkB (i : Int) : numOkB (intToDec i) = true := by
  cases i with
  | ofNat n => simp [numOkB, intToDec, natToDec_toList, stripMinus_natDigits, natDigits_canonical]
  | negSucc n =>
    have : ("-" ++ natToDec (n + 1)).toList = '-' :: natDigits (n + 1) := by simp [natToDec_toList]
    simp [numOkB, intToDec, this, stripMinus, natDigits_canonical]

theorem digit_printable {c : Char} (h : isDigit c = true) : asciiPrintable c = true := by
  have := isDigit_toNat h
  unfold asciiPrintable
  simp only [Bool.and_eq_true, decide_eq_true_eq]
  omega

theorem intToDec_strOk (i : Int) : strOk (intToDec i) = true := by
  unfold strOk
  cases i with
  | ofNat n =>
    simp only [intToDec, natToDec_toList, List.all_eq_true]
    intro c hc
    exact digit_printable (List.all_eq_true.mp (natDigits_all n) c hc)
  | negSucc n =>
    have : ("-" ++ natToDec (n + 1)).toList = '-' :: natDigits (n + 1) := by simp [natToDec_toList]
    simp only [intToDec, this, List.all_cons, Bool.and_eq_true, List.all_eq_true]
    refine ⟨by decide, ?_⟩
    intro c hc
    exact digit_printable (List.all_eq_true.mp (natDigits_all _) c hc)

theorem b64Char_printable : ∀ n < 64, 0x20 ≤ (b64Char n).toNat ∧ (b64Char n).toNat < 0x7F := by decide +kernel

theorem b64Encode_printable : ∀ (l : Bytes), ∀ c ∈ b64Encode l, 0x20 ≤ c.toNat ∧ c.toNat < 0x7F
  | [] => by simp [b64Encode]
  | [a] => by
    have ha := a.toNat_lt
    obtain ⟨r1, r2, -, -, -, -⟩ := b64_rng1 a.toNat ha
    have r3 := (b64_rng2 _ r2 0 (by omega)).2
    intro c hc
    simp only [b64Encode, List.mem_cons, List.mem_nil_iff, or_false] at hc
    rcases hc with rfl | rfl | rfl | rfl
    · exact b64Char_printable _ r1
    · exact b64Char_printable _ r3
    · decide
    · decide
  | [a, b] => by
    have ha := a.toNat_lt
    have hb := b.toNat_lt
    obtain ⟨r1, r2, -, -, -, -⟩ := b64_rng1 a.toNat ha
    obtain ⟨-, -, s3, s4, -, -⟩ := b64_rng1 b.toNat hb
    have r3 := (b64_rng2 _ r2 _ s3).1
    have r4 := (b64_rng3 _ s4 0 (by omega)).2
    intro c hc
    simp only [b64Encode, List.mem_cons, List.mem_nil_iff, or_false] at hc
    rcases hc with rfl | rfl | rfl | rfl
    · exact b64Char_printable _ r1
    · exact b64Char_printable _ r3
    · exact b64Char_printable _ r4
    · decide
  | a :: b :: c :: rest => by
    have ih := b64Encode_printable rest
    have ha := a.toNat_lt
    have hb := b.toNat_lt
    have hc := c.toNat_lt
    obtain ⟨r1, r2, -, -, -, -⟩ := b64_rng1 a.toNat ha
    obtain ⟨-, -, s3, s4, -, -⟩ := b64_rng1 b.toNat hb
    obtain ⟨-, -, -, -, t5, t6⟩ := b64_rng1 c.toNat hc
    have q1 := (b64_rng2 _ r2 _ s3).1
    have q2 := (b64_rng3 _ s4 _ t5).1
    intro x hx
    simp only [b64Encode, List.mem_cons] at hx
    rcases hx with rfl | rfl | rfl | rfl | hx
    · exact b64Char_printable _ r1
    · exact b64Char_printable _ q1
    · exact b64Char_printable _ q2
    · exact b64Char_printable _ t6
    · exact ih x hx

theorem asciiString_strOk (l : Bytes) (h : ∀ c ∈ l, 0x20 ≤ c.toNat ∧ c.toNat < 0x7F) : strOk (asciiString l) = true := by
  unfold strOk asciiString
  simp only [String.toList_ofList, List.all_map, List.all_eq_true, Function.comp]
  intro b hb
  have := h b hb
  unfold asciiPrintable
  have hv : (Char.ofNat b.toNat).toNat = b.toNat := by
    have : b.toNat.isValidChar := by left; omega
    simp [Char.ofNat, this, Char.ofNatAux, Char.toNat]
  simp only [hv, Bool.and_eq_true, decide_eq_true_eq]
  exact this

theorem encB64_printable (b : Bytes) : (encB64 b).printable = true :=
  encStr_printable _ (asciiString_strOk _ (b64Encode_printable b))

theorem encBytesAny_printable (b : Bytes) : (encBytesAny b).printable = true := by
  unfold encBytesAny; split
  · rfl
  · exact encB64_printable b

theorem encBytesTop_printable (σ : Bool) (b : Bytes) : (encBytesTop σ b).printable = true := by
  unfold encBytesTop; split
  · rfl
  · exact encB64_printable b

theorem encMathInt_printable (i : Int) : (encMathInt i).printable = true := encStr_printable _ (intToDec_strOk i)

def EnumNamesOk (names : List (Int × String)) : Prop := ∀ e ∈ names, strOk e.2 = true
theorem protocolIds_names : EnumNamesOk Gen.protocolIds := by unfold EnumNamesOk; decide
theorem actionIds_names : EnumNamesOk Gen.actionIds := by unfold EnumNamesOk; decide

theorem encEnum_printable (names : List (Int × String)) (hn : EnumNamesOk names) (n : Int) : (encEnum names n).printable = true := by
  unfold encEnum
  cases hf : names.find? (·.1 == n) with
  | none => simp [Json.printable, intToDec_numOkB]
  | some e =>
    obtain ⟨m, s⟩ := e
    exact encStr_printable s (hn (m, s) (List.mem_of_find?_eq_some hf))


theorem printableList_map {α} (enc : α → Json) (l : List α) (h : ∀ a ∈ l, (enc a).printable = true) : printableList (l.map enc) = true := by
  induction l with
  | nil => rfl
  | cons a t ih => simp only [List.map_cons, printableList, h a (by simp), ih (fun b hb => h b (by simp [hb])), Bool.and_self]

theorem heightList_map {α} (enc : α → Json) (l : List α) (k : Nat) (h : ∀ a ∈ l, (enc a).height ≤ k) : heightList (l.map enc) ≤ k := by
  induction l with
  | nil => simp [heightList]
  | cons a t ih =>
    simp only [List.map_cons, heightList]
    exact Nat.max_le.mpr ⟨h a (by simp), ih (fun b hb => h b (by simp [hb]))⟩

theorem encFeeInfo_printable (f : FeeInfo) (h : f.textOk = true) : (encFeeInfo f).printable = true ∧ (encFeeInfo f).height ≤ 2 := by
  obtain ⟨r, ft⟩ := f
  simp only [FeeInfo.textOk, Bool.and_eq_true] at h
  have k1 : strOk "recipient" = true := by decide
  have k2 : strOk "basis_points" = true := by decide
  have k3 : strOk "amount" = true := by decide
  have k4 : strOk "value" = true := by decide
  have hnum : ∀ v : Nat, numOkB (natToDec v) = true := by
    intro v; have := encUint_printable v; simpa [encUint, Json.printable] using this
  cases ft with
  | unset =>
    simp [encFeeInfo, Json.printable, printableFields, keysDistinct, k1, h.1, Json.height, heightFields, encStr]
  | bps v =>
    simp [encFeeInfo, Json.printable, printableFields, keysDistinct, k1, k2, k4, h.1, hnum, Json.height, heightFields, encStr, encUint]
  | amount s =>
    have h2 : strOk s = true := by simpa using h.2
    simp [encFeeInfo, Json.printable, printableFields, keysDistinct, k1, k3, k4, h.1, h2, Json.height, heightFields, encStr]


theorem url_strOk : strOk cctpUrl = true ∧ strOk hypUrl = true ∧ strOk internalUrl = true ∧ strOk feeUrl = true := by decide

theorem encAttrs_printable (a : Attrs) (h : a.textOk = true) : (encAttrs a).printable = true ∧ (encAttrs a).height ≤ 4 := by
  have hnum : ∀ v : Nat, numOkB (natToDec v) = true := by
    intro v; have := encUint_printable v; simpa [encUint, Json.printable] using this
  obtain ⟨u1, u2, u3, u4⟩ := url_strOk
  cases a with
  | cctp d m c =>
    have e1 := encBytesAny_printable m
    have e2 := encBytesAny_printable c
    have hh : ∀ b : Bytes, (encBytesAny b).height = 0 := by intro b; unfold encBytesAny; split <;> rfl
    have k1 : strOk "@type" = true ∧ strOk "destination_domain" = true ∧ strOk "mint_recipient" = true ∧ strOk "destination_caller" = true := by decide
    simp [encAttrs, Json.printable, printableFields, keysDistinct, k1.1, k1.2.1, k1.2.2.1, k1.2.2.2, u1, e1, e2, hnum, Json.height, heightFields, encStr, encUint, hh]
  | hyp t d r hk hm g fd fa =>
    simp only [Attrs.textOk, Bool.and_eq_true] at h
    have e1 := encBytesAny_printable t
    have e2 := encBytesAny_printable r
    have e3 := encBytesAny_printable hk
    have e4 := intToDec_strOk g
    have e5 := intToDec_strOk fa
    have hh : ∀ b : Bytes, (encBytesAny b).height = 0 := by intro b; unfold encBytesAny; split <;> rfl
    have k1 : strOk "@type" = true ∧ strOk "token_id" = true ∧ strOk "destination_domain" = true ∧ strOk "recipient" = true ∧ strOk "custom_hook_id" = true
        ∧ strOk "custom_hook_metadata" = true ∧ strOk "gas_limit" = true ∧ strOk "max_fee" = true ∧ strOk "denom" = true ∧ strOk "amount" = true := by decide
    obtain ⟨a1, a2, a3, a4, a5, a6, a7, a8, a9, a10⟩ := k1
    simp [encAttrs, Json.printable, printableFields, keysDistinct, a1, a2, a3, a4, a5, a6, a7, a8, a9, a10, u2, e1, e2, e3, e4, e5, h.1, h.2, hnum, Json.height, heightFields,
      encStr, encUint, encMathInt, hh]
  | internal r =>
    have k1 : strOk "@type" = true ∧ strOk "recipient" = true := by decide
    have hr : strOk r = true := by simpa [Attrs.textOk] using h
    simp [encAttrs, Json.printable, printableFields, keysDistinct, k1.1, k1.2, u3, hr, Json.height, heightFields, encStr]
  | fee infos =>
    have hi : ∀ f ∈ infos, f.textOk = true := by
      have : infos.all FeeInfo.textOk = true := by simpa [Attrs.textOk] using h
      exact List.all_eq_true.mp this
    have k1 : strOk "@type" = true ∧ strOk "fees_info" = true := by decide
    have p1 := printableList_map encFeeInfo infos (fun f hf => (encFeeInfo_printable f (hi f hf)).1)
    have p2 := heightList_map encFeeInfo infos 2 (fun f hf => (encFeeInfo_printable f (hi f hf)).2)
    simp [encAttrs, Json.printable, printableFields, keysDistinct, k1.1, k1.2, u4, p1, Json.height, heightFields, encStr]
    omega


theorem encAny_printable (a : Option Attrs) (h : ∀ x, a = some x → x.textOk = true) : (encAny a).printable = true ∧ (encAny a).height ≤ 4 := by
  cases a with
  | none => exact ⟨rfl, by simp [encAny, Json.height]⟩
  | some x => exact encAttrs_printable x (h x rfl)

theorem encEnum_height (names : List (Int × String)) (n : Int) : (encEnum names n).height = 0 := by
  unfold encEnum; split <;> rfl

theorem encAction_printable (a : Action) (h : ∀ x, a.attrs = some x → x.textOk = true) : (encAction a).printable = true ∧ (encAction a).height ≤ 5 := by
  obtain ⟨p1, p2⟩ := encAny_printable a.attrs h
  have k1 : strOk "id" = true ∧ strOk "attributes" = true := by decide
  have e1 := encEnum_printable _ actionIds_names a.id
  simp [encAction, Json.printable, printableFields, keysDistinct, k1.1, k1.2, p1, e1, Json.height, heightFields, encEnum_height]
  omega

theorem encForwarding_printable (σ : Bool) (f : Forwarding) (h : ∀ x, f.attrs = some x → x.textOk = true) :
    (encForwarding σ f).printable = true ∧ (encForwarding σ f).height ≤ 5 := by
  obtain ⟨p1, p2⟩ := encAny_printable f.attrs h
  have k1 : strOk "protocol_id" = true ∧ strOk "attributes" = true ∧ strOk "passthrough_payload" = true := by decide
  have e1 := encEnum_printable _ protocolIds_names f.protocolId
  have e2 := encBytesTop_printable σ f.passthrough
  have hh : (encBytesTop σ f.passthrough).height = 0 := by unfold encBytesTop; split <;> rfl
  simp [encForwarding, Json.printable, printableFields, keysDistinct, k1.1, k1.2.1, k1.2.2, p1, e1, e2, Json.height, heightFields, encEnum_height, hh]
  omega

theorem encWrapper_printable (σ : Bool) (p : Payload) (h : p.textOk = true) :
    (encWrapper σ p).printable = true ∧ (encWrapper σ p).height ≤ 8 := by
  unfold Payload.textOk at h
  simp only [Bool.and_eq_true, List.all_eq_true] at h
  have ha : ∀ a ∈ p.preActions, (encAction a).printable = true ∧ (encAction a).height ≤ 5 := by
    intro a hm
    apply encAction_printable
    intro x hx
    have := h.1 a hm
    rw [hx] at this
    exact this
  have p1 := printableList_map encAction p.preActions (fun a hm => (ha a hm).1)
  have p2 := heightList_map encAction p.preActions 5 (fun a hm => (ha a hm).2)
  have k1 : strOk "pre_actions" = true ∧ strOk "forwarding" = true ∧ strOk Gen.orbiterPrefix = true := by decide
  have hk : Gen.orbiterPrefix = "orbiter" := rfl
  cases hf : p.forwarding with
  | none =>
    simp [encWrapper, encPayload, Json.printable, printableFields, keysDistinct, k1.1, k1.2.1, k1.2.2, p1, Json.height, heightFields, hf]
    omega
  | some f =>
    have hfw : ∀ x, f.attrs = some x → x.textOk = true := by
      intro x hx
      have := h.2
      rw [hf] at this
      simp only [hx] at this
      exact this
    obtain ⟨q1, q2⟩ := encForwarding_printable σ f hfw
    simp [encWrapper, encPayload, Json.printable, printableFields, keysDistinct, k1.1, k1.2.1, k1.2.2, p1, q1, Json.height, heightFields, hf]
    omega

/-- **Text level.** The syntax layer reads the marshalled memo back as the marshalled tree. -/
theorem parse_marshalled (σ : Bool) (p : Payload) (h : p.textOk = true) : parseJsonWhole (marshalPayload σ p) = some (encWrapper σ p) := by
  obtain ⟨h1, h2⟩ := encWrapper_printable σ p h
  exact parseJsonWhole_render _ h1 (by unfold maxDepth; omega)


/-! ### what validation accepts is printable -/

theorem bech32_strOk (hrp s : String) (a : Bytes) (h : accAddressFromBech32 hrp s = some a) : strOk s = true := by
  unfold accAddressFromBech32 at h
  split at h
  · cases h
  · cases hd : bech32Decode s (some 1023) with
    | none => simp [hd] at h
    | some r =>
      unfold bech32Decode at hd
      simp only at hd
      split at hd
      · cases hd
      · split at hd
        · cases hd
        · split at hd
          · cases hd
          · rename_i hany
            unfold strOk
            rw [List.all_eq_true]
            intro c hc
            have : ¬ (c.toNat < 33 || c.toNat > 126) = true := by
              intro hh
              apply hany
              rw [List.any_eq_true]
              exact ⟨c, hc, hh⟩
            simp only [Bool.or_eq_true, decide_eq_true_eq, not_or, Nat.not_lt, Nat.not_lt] at this
            unfold asciiPrintable
            simp only [Bool.and_eq_true, decide_eq_true_eq]
            omega

theorem alnum_printable {c : Char} (h : digitValBase c < 99) : asciiPrintable c = true := by
  unfold digitValBase at h
  unfold asciiPrintable
  simp only [Bool.and_eq_true, decide_eq_true_eq]
  split at h
  · rename_i hc
    have h1 : ('0' : Char).toNat ≤ c.toNat := hc.1
    have h2 : c.toNat ≤ ('9' : Char).toNat := hc.2
    have : ('0' : Char).toNat = 48 ∧ ('9' : Char).toNat = 57 := by decide
    omega
  · split at h
    · rename_i hc
      have h1 : ('a' : Char).toNat ≤ c.toNat := hc.1
      have h2 : c.toNat ≤ ('z' : Char).toNat := hc.2
      have : ('a' : Char).toNat = 97 ∧ ('z' : Char).toNat = 122 := by decide
      omega
    · split at h
      · rename_i hc
        have h1 : ('A' : Char).toNat ≤ c.toNat := hc.1
        have h2 : c.toNat ≤ ('Z' : Char).toNat := hc.2
        have : ('A' : Char).toNat = 65 ∧ ('Z' : Char).toNat = 90 := by decide
        omega
      · omega

theorem scanDigits0_printable (b : Nat) (hb : b ≤ 16) (cs : List Char) (prev : Bool) (acc cnt : Nat) (r : Nat × Nat)
    (h : scanDigits0 b cs prev acc cnt = some r) : cs.all asciiPrintable = true := by
  induction cs generalizing prev acc cnt with
  | nil => rfl
  | cons c cs ih =>
    unfold scanDigits0 at h
    simp only [List.all_cons, Bool.and_eq_true]
    split at h
    · rename_i hu
      have hc : c = '_' := by simpa using hu
      split at h
      · exact ⟨by subst hc; decide, ih _ _ _ h⟩
      · cases h
    · simp only at h
      split at h
      · rename_i hlt
        exact ⟨alnum_printable (by omega), ih _ _ _ h⟩
      · cases h


theorem parseNat0_printable (cs : List Char) (n : Nat) (h : parseNat0 cs = some n) : cs.all asciiPrintable = true := by
  unfold parseNat0 at h
  split at h
  · rename_i rest
    simp only [List.all_cons, Bool.and_eq_true]
    refine ⟨by decide, ?_⟩
    split at h
    · rfl
    · rename_i c more
      simp only [List.all_cons, Bool.and_eq_true]
      split at h
      · rename_i hc
        refine ⟨by simp only [Bool.or_eq_true, beq_iff_eq] at hc; rcases hc with rfl | rfl <;> decide, ?_⟩
        cases hs : scanDigits0 2 more true 0 0 with
        | none => simp [hs] at h
        | some r => exact scanDigits0_printable 2 (by omega) more true 0 0 r hs
      · split at h
        · rename_i hc
          refine ⟨by simp only [Bool.or_eq_true, beq_iff_eq] at hc; rcases hc with rfl | rfl <;> decide, ?_⟩
          cases hs : scanDigits0 8 more true 0 0 with
          | none => simp [hs] at h
          | some r => exact scanDigits0_printable 8 (by omega) more true 0 0 r hs
        · split at h
          · rename_i hc
            refine ⟨by simp only [Bool.or_eq_true, beq_iff_eq] at hc; rcases hc with rfl | rfl <;> decide, ?_⟩
            cases hs : scanDigits0 16 more true 0 0 with
            | none => simp [hs] at h
            | some r => exact scanDigits0_printable 16 (by omega) more true 0 0 r hs
          · cases hs : scanDigits0 8 (c :: more) true 0 0 with
            | none => simp [hs] at h
            | some r =>
              have := scanDigits0_printable 8 (by omega) (c :: more) true 0 0 r hs
              simpa using this
  · cases hs : scanDigits0 10 cs false 0 0 with
    | none => simp [hs] at h
    | some r => exact scanDigits0_printable 10 (by omega) cs false 0 0 r hs

theorem newIntFromString_strOk (v : String) (i : Int) (h : newIntFromString v = some i) : strOk v = true := by
  unfold newIntFromString at h
  cases hp : parseBigInt0 v with
  | none => simp [hp] at h
  | some j =>
    unfold parseBigInt0 at hp
    unfold strOk
    split at hp
    · rename_i r heq
      rw [heq]
      simp only [List.all_cons, Bool.and_eq_true]
      cases hn : parseNat0 r with
      | none => simp [hn] at hp
      | some n => exact ⟨by decide, parseNat0_printable r n hn⟩
    · rename_i r heq
      rw [heq]
      simp only [List.all_cons, Bool.and_eq_true]
      cases hn : parseNat0 r with
      | none => simp [hn] at hp
      | some n => exact ⟨by decide, parseNat0_printable r n hn⟩
    · cases hn : parseNat0 v.toList with
      | none => simp [hn] at hp
      | some n => exact parseNat0_printable _ n hn

theorem feeInfo_validate_textOk (hrp : String) (f : FeeInfo) (h : f.validate hrp = .ok ()) : f.textOk = true := by
  unfold FeeInfo.validate at h
  obtain ⟨_, h1, h2⟩ := Res.bind_eq_ok.mp h
  unfold FeeInfo.textOk
  simp only [Bool.and_eq_true]
  constructor
  · unfold FeeInfo.checkRecipient at h2
    cases ha : accAddressFromBech32 hrp f.recipient with
    | none => simp [ha] at h2
    | some a => exact bech32_strOk hrp f.recipient a ha
  · unfold FeeInfo.checkType at h1
    cases hft : f.feeType with
    | unset => rfl
    | bps v => rfl
    | amount s =>
      simp only [hft] at h1 ⊢
      cases hn : newIntFromString s with
      | none => simp [hn] at h1
      | some i => exact newIntFromString_strOk s i hn

theorem validDenom_strOk (d : String) (h : validDenom d = true) : strOk d = true := by
  unfold validDenom at h
  unfold strOk
  cases hl : d.toList with
  | nil => rfl
  | cons c rest =>
    simp only [hl, Bool.and_eq_true, List.all_eq_true] at h
    obtain ⟨⟨⟨hc, _⟩, _⟩, hr⟩ := h
    have alpha : ∀ x : Char, isAlpha x = true → asciiPrintable x = true := by
      intro x hx
      unfold isAlpha at hx
      simp only [Bool.or_eq_true, Bool.and_eq_true, decide_eq_true_eq] at hx
      unfold asciiPrintable
      simp only [Bool.and_eq_true, decide_eq_true_eq]
      rcases hx with ⟨h1, h2⟩ | ⟨h1, h2⟩
      · have a1 : ('a' : Char).toNat ≤ x.toNat := h1
        have a2 : x.toNat ≤ ('z' : Char).toNat := h2
        have : ('a' : Char).toNat = 97 ∧ ('z' : Char).toNat = 122 := by decide
        omega
      · have a1 : ('A' : Char).toNat ≤ x.toNat := h1
        have a2 : x.toNat ≤ ('Z' : Char).toNat := h2
        have : ('A' : Char).toNat = 65 ∧ ('Z' : Char).toNat = 90 := by decide
        omega
    simp only [List.all_cons, Bool.and_eq_true, List.all_eq_true]
    refine ⟨alpha c hc, ?_⟩
    intro x hx
    have := hr x hx
    simp only [Bool.or_eq_true, beq_iff_eq] at this
    rcases this with (((((h1 | h1) | h1) | h1) | h1) | h1) | h1
    · exact alpha x h1
    · exact digit_printable h1
    all_goals (subst h1; decide)


theorem hexVal_printable {c : Char} (h : (hexVal? c).isSome = true) : asciiPrintable c = true := by
  unfold hexVal? at h
  unfold asciiPrintable
  simp only [Bool.and_eq_true, decide_eq_true_eq]
  split at h
  · rename_i hc
    have h1 : ('0' : Char).toNat ≤ c.toNat := hc.1
    have h2 : c.toNat ≤ ('9' : Char).toNat := hc.2
    have : ('0' : Char).toNat = 48 ∧ ('9' : Char).toNat = 57 := by decide
    omega
  · split at h
    · rename_i hc
      have h1 : ('a' : Char).toNat ≤ c.toNat := hc.1
      have h2 : c.toNat ≤ ('f' : Char).toNat := hc.2
      have : ('a' : Char).toNat = 97 ∧ ('f' : Char).toNat = 102 := by decide
      omega
    · split at h
      · rename_i hc
        have h1 : ('A' : Char).toNat ≤ c.toNat := hc.1
        have h2 : c.toNat ≤ ('F' : Char).toNat := hc.2
        have : ('A' : Char).toNat = 65 ∧ ('F' : Char).toNat = 70 := by decide
        omega
      · cases h

/-- Hook metadata accepted by `HypAttributes.Validate` (`0x` + hex, or empty) is printable. -/
theorem hookMeta_strOk (hm : String)
    (h : (hm != "" && !(hm.startsWith Gen.hypHookMetadataPrefix && isHexString (hm.drop Gen.hypHookMetadataPrefix.length).toString)) = false) :
    strOk hm = true := by
  unfold strOk
  simp only [Bool.and_eq_false_iff, bne_eq_false_iff_eq, Bool.not_eq_false', Bool.and_eq_true] at h
  rcases h with h | h
  · subst h; rfl
  · obtain ⟨hp, hx⟩ := h
    have hpre : Gen.hypHookMetadataPrefix.toList <+: hm.toList := by simpa using hp
    obtain ⟨t, ht⟩ := hpre
    have hd : (hm.drop Gen.hypHookMetadataPrefix.length).toString.toList = t := by
      have h1 : (hm.drop Gen.hypHookMetadataPrefix.length).toString.toList = hm.toList.drop Gen.hypHookMetadataPrefix.length := by simp
      rw [h1, ← ht, ← String.length_toList, List.drop_left]
    unfold isHexString at hx
    simp only [hd, Bool.and_eq_true, List.all_eq_true] at hx
    rw [← ht, List.all_append, Bool.and_eq_true]
    refine ⟨by decide, ?_⟩
    rw [List.all_eq_true]
    intro c hc
    exact hexVal_printable (hx.2 c hc)


/-- Attributes accepted by `Validate()` have printable text. -/
theorem attrs_validate_textOk (hrp : String) (orb : Bytes) (a : Attrs) (h : a.validate hrp orb = .ok ()) : a.textOk = true := by
  cases a with
  | cctp d m c => rfl
  | internal r =>
    simp only [Attrs.validate] at h
    simp only [Attrs.textOk]
    split at h
    · cases h
    · cases ha : accAddressFromBech32 hrp r with
      | none => simp [ha] at h
      | some x => exact bech32_strOk hrp r x ha
  | fee infos =>
    simp only [Attrs.validate, validateFeeAttrs, Res.guard_bind_eq_ok] at h
    simp only [Attrs.textOk]
    rw [List.all_eq_true]
    intro f hf
    exact feeInfo_validate_textOk hrp f (Res.allM_ok h.2 f hf)
  | hyp t d r k hm g fd fa =>
    simp only [Attrs.validate] at h
    repeat' split at h
    all_goals first | cases h | skip
    rename_i g1 g2 g3 g4 hmeta ggas g6 hden
    have h1 : strOk hm = true := by
      apply hookMeta_strOk
      cases hq : (hm != "" && !(hm.startsWith Gen.hypHookMetadataPrefix && isHexString (hm.drop Gen.hypHookMetadataPrefix.length).toString)) with
      | false => rfl
      | true => exact absurd hq hmeta
    simp only [Attrs.textOk, h1, Bool.true_and]
    by_cases he : fd = ""
    · subst he; rfl
    · have : validDenom fd = true := by
        cases hv : validDenom fd with
        | true => rfl
        | false => simp [hv, he] at hden
      exact validDenom_strOk fd this

end Orbiter
