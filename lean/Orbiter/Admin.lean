/-
  Orbiter.Admin — message servers, query servers, genesis (keeper/component/*/{msg_server,
  query_server,genesis,state}.go, types/**/genesis.go) and the SDK's `query.CollectionPaginate`.
-/
import Orbiter.Recv
namespace Orbiter

/-! ### ordered key sets -/

def insertBy {α} (lt : α → α → Bool) (x : α) : List α → List α
  | [] => [x]
  | y :: ys => if lt x y then x :: y :: ys else y :: insertBy lt x ys

def intLt (a b : Int) : Bool := a < b

/-- Order of `Pair[int32, string]` keys (string terminal): numeric, then raw bytes. -/
def ccLt (a b : Int × String) : Bool :=
  bytesLt (encInt32 a.1 ++ strBytes a.2) (encInt32 b.1 ++ strBytes b.2)

/-! ### messages -/

inductive Msg where
  | pauseProtocol (signer pid : String)
  | unpauseProtocol (signer pid : String)
  | pauseCrossChains (signer pid : String) (ids : List String)
  | unpauseCrossChains (signer pid : String) (ids : List String)
  | replaceDepositForBurn (signer : String) (origMsg origAtt newCaller newMint : Bytes)
  | pauseAction (signer aid : String)
  | unpauseAction (signer aid : String)
  | updateParams (signer : String) (maxSize : Nat)
  deriving Repr, DecidableEq, Inhabited

def Msg.signer : Msg → String
  | .pauseProtocol s _ => s | .unpauseProtocol s _ => s
  | .pauseCrossChains s _ _ => s | .unpauseCrossChains s _ _ => s
  | .replaceDepositForBurn s .. => s
  | .pauseAction s _ => s | .unpauseAction s _ => s
  | .updateParams s _ => s

/-- RPC names the model covers, to be compared with the service descriptors. -/
def modelMsgRpcs : List (String × String) :=
  [("noble.orbiter.component.adapter.v1.Msg/UpdateParams", "signer"),
   ("noble.orbiter.component.executor.v1.Msg/PauseAction", "signer"),
   ("noble.orbiter.component.executor.v1.Msg/UnpauseAction", "signer"),
   ("noble.orbiter.component.forwarder.v1.Msg/PauseCrossChains", "signer"),
   ("noble.orbiter.component.forwarder.v1.Msg/PauseProtocol", "signer"),
   ("noble.orbiter.component.forwarder.v1.Msg/ReplaceDepositForBurn", "signer"),
   ("noble.orbiter.component.forwarder.v1.Msg/UnpauseCrossChains", "signer"),
   ("noble.orbiter.component.forwarder.v1.Msg/UnpauseProtocol", "signer")]

def setPausedProtocol (o : OrbState) (p : Int) : Res OrbState :=
  if !protocolValid p then .err "state:protocol-id"
  else if o.pausedProtocols.contains p then .err "state:already-paused"
  else .ok { o with pausedProtocols := insertBy intLt p o.pausedProtocols }

def setUnpausedProtocol (o : OrbState) (p : Int) : Res OrbState :=
  if !protocolValid p then .err "state:protocol-id"
  else if !o.pausedProtocols.contains p then .err "state:not-paused"
  else .ok { o with pausedProtocols := o.pausedProtocols.erase p }

def setPausedCrossChain (o : OrbState) (p : Int) (cp : String) : Res OrbState :=
  if !crossChainValid p cp then .err "state:cross-chain-id"
  else if o.pausedCrossChains.contains (p, cp) then .err "state:already-paused"
  else .ok { o with pausedCrossChains := insertBy ccLt (p, cp) o.pausedCrossChains }

def setUnpausedCrossChain (o : OrbState) (p : Int) (cp : String) : Res OrbState :=
  if !crossChainValid p cp then .err "state:cross-chain-id"
  else if !o.pausedCrossChains.contains (p, cp) then .err "state:not-paused"
  else .ok { o with pausedCrossChains := o.pausedCrossChains.erase (p, cp) }

def setPausedAction (o : OrbState) (a : Int) : Res OrbState :=
  if !actionValid a then .err "state:action-id"
  else if o.pausedActions.contains a then .err "state:already-paused"
  else .ok { o with pausedActions := insertBy intLt a o.pausedActions }

def setUnpausedAction (o : OrbState) (a : Int) : Res OrbState :=
  if !actionValid a then .err "state:action-id"
  else if !o.pausedActions.contains a then .err "state:not-paused"
  else .ok { o with pausedActions := o.pausedActions.erase a }

/-- `Forwarder.Pause` / `Unpause`. -/
def forwarderPause (pause : Bool) (o : OrbState) (p : Int) (ids : List String) : Res OrbState :=
  if !protocolValid p then .err "forwarder:protocol-id"
  else if ids.isEmpty then (if pause then setPausedProtocol o p else setUnpausedProtocol o p)
  else if ids.any (fun id => !validateCounterpartyID id p) then .err "forwarder:counterparty-id"
  else ids.foldlM (fun o id => if pause then setPausedCrossChain o p id else setUnpausedCrossChain o p id) o

/-- One message through the message router: the handler runs on a cached state that is written only
on success (message-level rollback). Returns the result, the new state and the emitted events. -/
def msgStep (cfg : Cfg) (φ : Faults) (o : OrbState) (m : Msg) : Res (OrbState × List String × List Req) :=
  if m.signer != cfg.authority then .err "unauthorized" else
  let emitOk (k : Nat) : Res Unit := if φ "event.Emit" k then .err "msg:emit" else .ok ()
  match m with
  | .pauseProtocol _ pid =>
    match protocolIdFromString pid with
    | none => .err "msg:protocol-id"
    | some p => do let o ← forwarderPause true o p []; emitOk 1; pure (o, ["EventProtocolPaused"], [])
  | .unpauseProtocol _ pid =>
    match protocolIdFromString pid with
    | none => .err "msg:protocol-id"
    | some p => do let o ← forwarderPause false o p []; emitOk 1; pure (o, ["EventProtocolUnpaused"], [])
  | .pauseCrossChains _ pid ids =>
    match protocolIdFromString pid with
    | none => .err "msg:protocol-id"
    | some p =>
      if ids.length > Gen.maxTargetCounterparties then .err "msg:too-many"
      else do let o ← forwarderPause true o p ids; emitOk 1; pure (o, ["EventCrossChainsPaused"], [])
  | .unpauseCrossChains _ pid ids =>
    match protocolIdFromString pid with
    | none => .err "msg:protocol-id"
    | some p =>
      if ids.length > Gen.maxTargetCounterparties then .err "msg:too-many"
      else do let o ← forwarderPause false o p ids; emitOk 1; pure (o, ["EventCrossChainsUnpaused"], [])
  | .replaceDepositForBurn _ _ _ _ _ =>
    if !Gen.forwardingRoutes.contains PROTOCOL_CCTP then .err "msg:no-cctp-controller"
    -- the CCTP module verifies the original message and its attestation; the model's environment
    -- holds no attested messages, so the call is refused there (orbiter state is untouched either way)
    else .err "cctp:replace-refused"
  | .pauseAction _ aid =>
    match actionIdFromString aid with
    | none => .err "msg:action-id"
    | some a => do let o ← setPausedAction o a; emitOk 1; pure (o, ["EventPaused"], [])
  | .unpauseAction _ aid =>
    match actionIdFromString aid with
    | none => .err "msg:action-id"
    | some a => do let o ← setUnpausedAction o a; emitOk 1; pure (o, ["EventUnpaused"], [])
  | .updateParams _ n => .ok ({ o with params := some n }, [], [])

/-- The request `ReplaceDepositForBurn` hands to CCTP (C05): message fields verbatim, orbiter as owner. -/
def replaceRequest (m : Msg) : Option (String × Bytes × Bytes × Bytes × Bytes) :=
  match m with
  | .replaceDepositForBurn _ a b c d => some ("orbiter", a, b, c, d)
  | _ => none

/-! ### `query.CollectionPaginate` -/

structure PageReq where
  key : Bytes := []
  offset : Nat := 0
  limit : Nat := 0
  countTotal : Bool := false
  reverse : Bool := false
  deriving Repr, DecidableEq, Inhabited

structure PageRes (α : Type) where
  items : List α
  next : Bytes
  total : Nat
  deriving Repr

/-- `storetypes.PrefixEndBytes`; `none` = no upper bound. -/
def prefixEnd (b : Bytes) : Option Bytes :=
  let rec go : List UInt8 → Option (List UInt8)   -- on the reversed list
    | [] => none
    | x :: rest => if x == 255 then go rest else some ((x + 1) :: rest)
  (go b.reverse).map List.reverse

def bytesLe (a b : Bytes) : Bool := !bytesLt b a

def defaultLimit : Nat := 100

/-- The paginator over the entries of a collection (`entries` = all (encoded key, value) pairs in
ascending key order), restricted to `pre`. `none` = the "either offset or key" error. -/
def paginate {α} (entries : List (Bytes × α)) (pre : Bytes) (r : PageReq) : Option (PageRes α) :=
  let limit := if r.limit == 0 then defaultLimit else r.limit
  let countTotal := if r.limit == 0 then true else r.countTotal
  if r.offset > 0 && !r.key.isEmpty then none else
  let inPrefix := entries.filter fun e => e.1.take pre.length == pre
  let strip (k : Bytes) : Bytes := k.drop pre.length
  if !r.key.isEmpty then
    -- key based
    let range :=
      if r.reverse then
        let hi := prefixEnd (pre ++ r.key)
        (inPrefix.filter fun e => match hi with | some h => bytesLt e.1 h | none => true).reverse
      else inPrefix.filter fun e => bytesLe (pre ++ r.key) e.1
    let page := range.take limit
    let next := match range.drop limit with | e :: _ => strip e.1 | [] => []
    some { items := page.map (·.2), next := next, total := 0 }
  else
    let range := if r.reverse then inPrefix.reverse else inPrefix
    if range.isEmpty || r.offset > range.length then some { items := [], next := [], total := 0 }
    else
      let rest := range.drop r.offset
      let page := rest.take limit
      let next := match rest.drop limit with | e :: _ => strip e.1 | [] => []
      some { items := page.map (·.2), next := next, total := if countTotal then rest.length + r.offset else 0 }

/-! ### queries -/

inductive Query where
  | isProtocolPaused (pid : String)
  | pausedProtocols
  | isCrossChainPaused (pid cp : String)
  | pausedCrossChains (pid : String) (page : PageReq)
  | isActionPaused (aid : String)
  | pausedActions
  | params
  | dispatchedCounts (sp scp dp dcp : String)
  | dispatchedCountsBySrc (pid : String) (page : PageReq)
  | dispatchedCountsByDst (pid : String) (page : PageReq)
  | dispatchedAmounts (sp scp dp dcp denom : String)
  | dispatchedAmountsBySrc (pid : String) (page : PageReq)
  | dispatchedAmountsByDst (pid : String) (page : PageReq)
  deriving Repr, DecidableEq, Inhabited

/-- An exported / listed amounts entry: source id, destination id, denom, incoming, outgoing. -/
structure AmtEntry where
  src : Int × String
  dst : Int × String
  denom : String
  incoming : Int
  outgoing : Int
  deriving Repr, DecidableEq, Inhabited

structure CntEntry where
  src : Int × String
  dst : Int × String
  count : Nat
  deriving Repr, DecidableEq, Inhabited

/-- `getDispatchedAmountEntryFromKey`. -/
def amtEntryOfKey (k : AmtKey) (v : Int × Int) : Option AmtEntry :=
  if !crossChainValid k.srcProto k.srcCp then none else
  match parseCrossChainID k.dstId with
  | none => none
  | some d => some { src := (k.srcProto, k.srcCp), dst := d, denom := k.denom, incoming := v.1, outgoing := v.2 }

def cntEntryOfKey (k : CntKey) (n : Nat) : Option CntEntry :=
  if !crossChainValid k.srcProto k.srcCp || !crossChainValid k.dstProto k.dstCp then none
  else some { src := (k.srcProto, k.srcCp), dst := (k.dstProto, k.dstCp), count := n }

inductive QueryOut where
  | bool (b : Bool)
  | ints (l : List Int)
  | strs (l : List String) (next : Bytes) (total : Nat)
  | nat (n : Nat)
  | amts (l : List AmtEntry) (paged : Option (Bytes × Nat))
  | cnts (l : List CntEntry) (paged : Option (Bytes × Nat))
  deriving Repr, DecidableEq

def sortBy {α} (lt : α → α → Bool) (l : List α) : List α := l.foldl (fun acc x => insertBy lt x acc) []

/-- Destination protocol of an amounts key as the index computes it (`ParseCrossChainID(pk.K3())`). -/
def amtDstProto (k : AmtKey) : Option Int := (parseCrossChainID k.dstId).map (·.1)

def queryStep (o : OrbState) (q : Query) : Res QueryOut :=
  match q with
  | .isProtocolPaused pid =>
    match protocolIdFromString pid with
    | none => .err "query:protocol-id"
    | some p => .ok (.bool (o.pausedProtocols.contains p))
  | .pausedProtocols => .ok (.ints o.pausedProtocols)
  | .isCrossChainPaused pid cp =>
    match protocolIdFromString pid with
    | none => .err "query:protocol-id"
    | some p => if !crossChainValid p cp then .err "query:cross-chain-id" else .ok (.bool (o.pausedCrossChains.contains (p, cp)))
  | .pausedCrossChains pid page =>
    match protocolIdFromString pid with
    | none => .err "query:protocol-id"
    | some p =>
      let entries := o.pausedCrossChains.map fun e => (encInt32 e.1 ++ strBytes e.2, e.2)
      match paginate entries (encInt32 p) page with
      | none => .err "query:pagination"
      | some r => .ok (.strs r.items r.next r.total)
  | .isActionPaused aid =>
    match actionIdFromString aid with
    | none => .err "query:action-id"
    | some a => .ok (.bool (o.pausedActions.contains a))
  | .pausedActions => .ok (.ints o.pausedActions)
  | .params => match o.params with | some n => .ok (.nat n) | none => .err "query:params-unset"
  | .dispatchedCounts sp scp dp dcp =>
    match protocolIdFromString sp with
    | none => .err "query:source-protocol"
    | some s =>
      if !crossChainValid s scp then .err "query:source-id" else
      match protocolIdFromString dp with
      | none => .err "query:destination-protocol"
      | some d =>
        if !crossChainValid d dcp then .err "query:destination-id" else
        let n := lookupD o.counts { srcProto := s, srcCp := scp, dstProto := d, dstCp := dcp } 0
        if n == 0 then .err "query:not-found" else .ok (.cnts [{ src := (s, scp), dst := (d, dcp), count := n }] none)
  | .dispatchedAmounts sp scp dp dcp denom =>
    if denom == "" then .err "query:empty-denom" else
    match protocolIdFromString sp with
    | none => .err "query:source-protocol"
    | some s =>
      if !crossChainValid s scp then .err "query:source-id" else
      match protocolIdFromString dp with
      | none => .err "query:destination-protocol"
      | some d =>
        if !crossChainValid d dcp then .err "query:destination-id" else
        let v := lookupD o.amounts { srcProto := s, srcCp := scp, dstId := ccidString d dcp, denom := denom } (0, 0)
        if !(v.1 > 0 || v.2 > 0) then .err "query:not-found"
        else .ok (.amts [{ src := (s, scp), dst := (d, dcp), denom := denom, incoming := v.1, outgoing := v.2 }] none)
  | .dispatchedCountsBySrc pid page =>
    match protocolIdFromString pid with
    | none => .err "query:protocol-id"
    | some p =>
      let entries := o.counts.map fun e => (e.1.enc, e)
      match paginate entries (encInt32 p) page with
      | none => .err "query:pagination"
      | some r => match r.items.mapM (fun e => cntEntryOfKey e.1 e.2) with
        | none => .err "query:entry"
        | some l => .ok (.cnts l (some (r.next, r.total)))
  | .dispatchedCountsByDst pid page =>
    match protocolIdFromString pid with
    | none => .err "query:protocol-id"
    | some p =>
      let entries := sortBy (fun a b => bytesLt a.1 b.1) (o.counts.map fun e => (encInt32 e.1.dstProto ++ e.1.enc, e))
      match paginate entries (encInt32 p) page with
      | none => .err "query:pagination"
      | some r => match r.items.mapM (fun e => cntEntryOfKey e.1 e.2) with
        | none => .err "query:entry"
        | some l => .ok (.cnts l (some (r.next, r.total)))
  | .dispatchedAmountsBySrc pid page =>
    match protocolIdFromString pid with
    | none => .err "query:protocol-id"
    | some p =>
      let entries := o.amounts.map fun e => (e.1.enc, e)
      match paginate entries (encInt32 p) page with
      | none => .err "query:pagination"
      | some r => match r.items.mapM (fun e => amtEntryOfKey e.1 e.2) with
        | none => .err "query:entry"
        | some l => .ok (.amts l (some (r.next, r.total)))
  | .dispatchedAmountsByDst pid page =>
    match protocolIdFromString pid with
    | none => .err "query:protocol-id"
    | some p =>
      let entries := sortBy (fun a b => bytesLt a.1 b.1)
        (o.amounts.filterMap fun e => (amtDstProto e.1).map fun dp => (encInt32 dp ++ e.1.enc, e))
      match paginate entries (encInt32 p) page with
      | none => .err "query:pagination"
      | some r => match r.items.mapM (fun e => amtEntryOfKey e.1 e.2) with
        | none => .err "query:entry"
        | some l => .ok (.amts l (some (r.next, r.total)))

/-! ### genesis -/

structure Genesis where
  params : Nat := 0
  amounts : List (Option (Int × String) × Option (Int × String) × String × Int × Int) := []
  counts : List (Option (Int × String) × Option (Int × String) × Nat) := []
  pausedProtocols : List Int := []
  pausedCrossChains : List (Option (Int × String)) := []
  pausedActions : List Int := []
  deriving Repr, DecidableEq, Inhabited

/-- `Keeper.ExportGenesis`: walks in store order; an undecodable entry empties its list. -/
def exportGenesis (o : OrbState) : Genesis :=
  { params := o.params.getD 0
    amounts := match o.amounts.mapM (fun e => amtEntryOfKey e.1 e.2) with
      | some l => l.map fun a => (some a.src, some a.dst, a.denom, a.incoming, a.outgoing)
      | none => []
    counts := match o.counts.mapM (fun e => cntEntryOfKey e.1 e.2) with
      | some l => l.map fun c => (some c.src, some c.dst, c.count)
      | none => []
    pausedProtocols := o.pausedProtocols
    pausedCrossChains := o.pausedCrossChains.map some
    pausedActions := o.pausedActions }

def validId (id : Option (Int × String)) : Bool :=
  match id with | some (p, cp) => crossChainValid p cp | none => false

def hasDup {α} [DecidableEq α] : List α → Bool
  | [] => false
  | x :: xs => xs.contains x || hasDup xs

def validateAmtEntry (a : Option (Int × String) × Option (Int × String) × String × Int × Int) : Res Unit := do
  let (src, dst, denom, inc, out) := a
  if denom == "" then (.err "genesis:empty-denom" : Res Unit) else pure ()
  if !validId src then (.err "genesis:source-id" : Res Unit) else pure ()
  if !validId dst then (.err "genesis:destination-id" : Res Unit) else pure ()
  if inc < 0 || out < 0 then (.err "genesis:negative" : Res Unit) else pure ()
  if inc ≤ 0 && out ≤ 0 then (.err "genesis:zero" : Res Unit) else pure ()

def validateCntEntry (c : Option (Int × String) × Option (Int × String) × Nat) : Res Unit := do
  let (src, dst, n) := c
  if n == 0 then (.err "genesis:zero-count" : Res Unit) else pure ()
  if !validId src then (.err "genesis:source-id" : Res Unit) else pure ()
  if !validId dst then (.err "genesis:destination-id" : Res Unit) else pure ()

/-- `GenesisState.Validate` (all four components, in the module's order). -/
def validateGenesis (g : Genesis) : Res Unit := do
  Res.allM validateAmtEntry g.amounts
  Res.allM validateCntEntry g.counts
  if g.pausedProtocols.any (fun p => !protocolValid p) then (.err "genesis:protocol-id" : Res Unit) else pure ()
  if g.pausedCrossChains.any (fun c => !validId c) then (.err "genesis:cross-chain-id" : Res Unit) else pure ()
  if hasDup g.pausedProtocols then (.err "genesis:duplicate-protocol" : Res Unit) else pure ()
  if hasDup g.pausedCrossChains then (.err "genesis:duplicate-cross-chain" : Res Unit) else pure ()
  if g.pausedActions.any (fun a => !actionValid a) then (.err "genesis:action-id" : Res Unit) else pure ()
  if hasDup g.pausedActions then (.err "genesis:duplicate-action" : Res Unit) else pure ()

/-- An error during `InitGenesis` is a panic. -/
def asPanic (r : Res OrbState) : Res OrbState := match r with | .err t => .panic ("InitGenesis:" ++ t) | x => x

/-- One dispatched-amounts entry: a plain set (a later duplicate overwrites); a NUL in a non-terminal key
part fails to encode; the destination indexes are computed from the textual id on every Set. -/
def initAmtStep (o : OrbState) (a : Option (Int × String) × Option (Int × String) × String × Int × Int) : Res OrbState :=
  match a with
  | (some src, some dst, denom, inc, out) =>
    let dstId := ccidString dst.1 dst.2
    if hasNul src.2 || hasNul dstId then (.panic "InitGenesis:key-encoding" : Res OrbState)
    else if (parseCrossChainID dstId).isNone then .panic "InitGenesis:index"
    else pure { o with amounts := upsert amtLt o.amounts { srcProto := src.1, srcCp := src.2, dstId := dstId, denom := denom } (inc, out) }
  | _ => .panic "InitGenesis:nil-id"

def initCntStep (o : OrbState) (c : Option (Int × String) × Option (Int × String) × Nat) : Res OrbState :=
  match c with
  | (some src, some dst, n) =>
    if hasNul src.2 then (.panic "InitGenesis:key-encoding" : Res OrbState)
    else pure { o with counts := upsert cntLt o.counts { srcProto := src.1, srcCp := src.2, dstProto := dst.1, dstCp := dst.2 } n }
  | _ => .panic "InitGenesis:nil-id"

def initCcStep (o : OrbState) (c : Option (Int × String)) : Res OrbState :=
  match c with
  | some (p, cp) => asPanic (setPausedCrossChain o p cp)
  | none => .panic "InitGenesis:nil-id"

/-- `Keeper.InitGenesis` on an empty store. Any component error is a panic. -/
def initGenesis (g : Genesis) : Res OrbState := do
  let o : OrbState := { params := some g.params }
  let o ← g.amounts.foldlM initAmtStep o
  let o ← g.counts.foldlM initCntStep o
  let o ← g.pausedProtocols.foldlM (fun o p => asPanic (setPausedProtocol o p)) o
  let o ← g.pausedCrossChains.foldlM initCcStep o
  g.pausedActions.foldlM (fun o a => asPanic (setPausedAction o a)) o

/-! ### the genesis document, as the JSON codec hands it to the module -/

/-- `types.GenesisState` after `cdc.UnmarshalJSON`: the four component sections are pointers; a section that the
document omits or spells `null` stays nil (`nilSections` names them). -/
structure GenesisDoc where
  body : Genesis
  nilSections : List String := []
  deriving Repr, Inhabited

/-- `AppModuleBasic.ValidateGenesis` → `GenesisState.Validate`: a nil section is refused. -/
def validateGenesisDoc (d : GenesisDoc) : Res Unit :=
  if !d.nilSections.isEmpty then .err "genesis:nil-section" else validateGenesis d.body

/-- `AppModule.InitGenesis`: every component re-validates its section; a nil one panics. -/
def initGenesisDoc (d : GenesisDoc) : Res OrbState :=
  if !d.nilSections.isEmpty then .panic "InitGenesis:nil-section" else initGenesis d.body

end Orbiter
