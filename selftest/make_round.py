#!/usr/bin/env python3
"""Writes the task files for one round of seeded changes: for every property its text, the list of mechanisms already used
(from /verif/seeded/*/meta.json) and the prompt a fresh sub-agent gets.  The sub-agent sees only these three files and its
own scratch worktree — nothing from /verif.   usage: make_round.py <round> <variantA> <variantB> [outdir]"""
import collections, json, os, sys

VERIF = os.path.dirname(os.path.dirname(os.path.abspath(__file__)))
rnd, va, vb = sys.argv[1], sys.argv[2], sys.argv[3]
out = sys.argv[4] if len(sys.argv) > 4 else "/tmp/seeded%s-out" % rnd
os.makedirs(out, exist_ok=True)
template = open(os.path.join(VERIF, "selftest", "prompt_template.txt")).read()   # written for C11, round 6, variants k and l
props = [json.loads(l) for l in open(os.path.join(VERIF, "properties.jsonl"))]
for p in props:
    pid = p["id"]
    open(os.path.join(out, pid + ".property.txt"), "w").write(
        "%s — %s\n\n%s\n\nQuantified over: %s\n\nAnchored in: %s\n" % (pid, p["title"], p["statement"], p["quantifier"]["text"],
                                                                     ", ".join(p["anchors"]["files"])))
    used, files = [], collections.Counter()
    for d in sorted(os.listdir(os.path.join(VERIF, "seeded"))):
        if not d.startswith(pid):
            continue
        try:
            m = json.load(open(os.path.join(VERIF, "seeded", d, "meta.json")))
        except Exception:
            continue
        used.append("- (%s) %s" % (d[3:], " ".join(str(m.get("summary", "")).split())[:420]))
        for f in m.get("files_changed", []):
            files[f] += 1
    used.append("")
    used.append("Files the earlier changes for this property touched (count): " + ", ".join("%s (%d)" % kv for kv in files.most_common()))
    open(os.path.join(out, pid + ".used.txt"), "w").write("\n".join(used) + "\n")
    if template:
        t = template.replace("C11", pid).replace("wt6-", "wt%s-" % rnd).replace("seeded6-out", os.path.basename(out)).replace("/tmp/" + os.path.basename(out), out)
        t = t.replace('("k" and "l")', '("%s" and "%s")' % (va, vb)).replace("{k, l}", "{%s, %s}" % (va, vb))
        open(os.path.join(out, pid + ".prompt.txt"), "w").write(t)
print(out)
