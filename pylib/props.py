"""Per-property checks: streams (operation lines), projection, oracle."""
import scen
from checklib import Stream
from gen import Rng
from proto import hx, kv, unhx

PROPS = {}


def prop(cls):
    PROPS[cls.id] = cls
    return cls


class Base:
    level = "proof"
    assumptions = []
    explanation = ""

    @property
    def lean_files(self):
        return ["Props/%s.lean" % self.id]

    @property
    def theorem_prefixes(self):
        return ["Orbiter.%s." % self.id]

    def divergence_is_failure(self, f):
        """Is a model/implementation divergence at this property's projection a concrete failing input?"""
        return True

    def n(self, tier, quick, thorough):
        return thorough if tier == "thorough" else quick


def pure_oracle_no_panic(steps):
    return [(s.i, "panic: pure function panicked on " + s.line[:120]) for s in steps if s.op == "pure" and s.impl_raw.startswith("panic")]


@prop
class C04(Base):
    id = "C04"
    assumptions = ["amounts are math.Int values (|x| < 2^256); the bank sends of the fee action follow the bank contract of DESIGN.md §3.6"]

    def streams(self, tier, seed):
        r = Rng(seed * 1000 + 4)
        k = self.n(tier, 1, 10)
        lines = scen.fee_grid(r.fork(1), 300 * k) + scen.fee_lists(r.fork(2), 400 * k)
        return [Stream("S1-fee-arithmetic", lines, fields={"pure": ["_"]}, oracle=c04_oracle)]


def c04_expected(line):
    """Independent re-computation of the fee rule from the property statement."""
    import bech32 as _b
    f = line.split(" ")
    if f[1] == "feeamt":
        a, b = int(f[2]), int(f[3])
        if a * b >= 2 ** 256:
            return "err"
        return "ok:%d" % (a * b // 10000)
    if f[1] != "fees":
        return None
    A = int(f[2])
    n = int(f[4])
    rest = f[5:]
    credits = []
    total = 0
    if n > 5:
        return "err:validate"
    entries = []
    for i in range(n):
        rec, kind, val = unhx(rest[3 * i]).decode(), rest[3 * i + 1], unhx(rest[3 * i + 2]).decode()
        entries.append((rec, kind, val))
    import proto
    for rec, kind, val in entries:
        if kind in ("n", "N"):
            return "err:validate"
        if kind == "b":
            v = int(val)
            if v == 0 or v > 10000:
                return "err:validate"
        else:
            iv = parse_go_int(val)
            if iv is None or iv <= 0 or abs(iv) >= 2 ** 256:
                return "err:validate"
        if decode_addr(rec) is None:
            return "err:validate"
    for rec, kind, val in entries:
        if kind == "b":
            if A * int(val) >= 2 ** 256:
                return "err:compute"
            amt = A * int(val) // 10000
        else:
            amt = parse_go_int(val)
        if amt > 0:
            total += amt
            if total >= 2 ** 256:
                return "err:compute"
            credits.append((decode_addr(rec), amt))
    if total >= A:
        return "err:total"
    return "ok:total=%d;%s" % (total, ",".join("%s=%d" % (a.hex() if a else "-", m) for a, m in credits))


def parse_go_int(s):
    """big.Int.SetString(s, 0)"""
    import re
    m = re.fullmatch(r"([+-]?)(0[xX][0-9a-fA-F]+(?:_[0-9a-fA-F]+)*|0[bB][01]+(?:_[01]+)*|0[oO][0-7]+(?:_[0-7]+)*|0(?:_?[0-7]+)*|[1-9][0-9]*(?:_[0-9]+)*|0)", s)
    if not m:
        # Go also accepts "0x_1" style separators after the prefix
        m2 = re.fullmatch(r"([+-]?)(0[xX](?:_?[0-9a-fA-F]+)+|0[bB](?:_?[01]+)+|0[oO](?:_?[0-7]+)+)", s)
        if not m2:
            return None
        m = m2
    sign, body = m.group(1), m.group(2).replace("_", "")
    try:
        if body[:2].lower() == "0x":
            v = int(body[2:], 16)
        elif body[:2].lower() == "0b":
            v = int(body[2:], 2)
        elif body[:2].lower() == "0o":
            v = int(body[2:], 8)
        elif len(body) > 1 and body[0] == "0":
            v = int(body[1:], 8)
        else:
            v = int(body, 10)
    except ValueError:
        return None
    return -v if sign == "-" else v


def decode_addr(s):
    """sdk.AccAddressFromBech32 with prefix noble (independent python implementation)."""
    import bech32 as _b
    if s.strip() == "" or len(s) < 8 or len(s) > 1023:
        return None
    if any(ord(c) < 33 or ord(c) > 126 for c in s):
        return None
    if s.lower() != s and s.upper() != s:
        return None
    s = s.lower()
    pos = s.rfind("1")
    if pos < 1 or pos + 7 > len(s):
        return None
    hrp, data = s[:pos], s[pos + 1:]
    try:
        vals = [_b.CHARSET.index(c) for c in data]
    except ValueError:
        return None
    if _b.polymod(_b.hrp_expand(hrp) + vals) != 1:
        return None
    dec = _b.convertbits(vals[:-6], 5, 8, False)
    if dec is None or hrp != "noble" or len(dec) == 0 or len(dec) > 255:
        return None
    return bytes(dec)


def c04_oracle(steps):
    out = []
    for s in steps:
        if s.op != "pure":
            continue
        if s.impl_raw.startswith("panic"):
            out.append((s.i, "panic: fee computation panicked instead of refusing: " + s.line[:160]))
            continue
        exp = c04_expected(s.line)
        if exp is not None and exp != s.impl_raw:
            out.append((s.i, "fee-rule: expected %s got %s" % (exp[:160], s.impl_raw[:160])))
    return out


@prop
class C20(Base):
    id = "C20"
    assumptions = ["strconv / fmt decimal formatting of uint32 and int32 values is the usual decimal notation (tied by stream S1)"]

    def streams(self, tier, seed):
        r = Rng(seed * 1000 + 20)
        k = self.n(tier, 1, 10)
        lines = scen.id_grid(r.fork(1), 400 * k)
        return [Stream("S1-identifiers", lines, fields={"pure": ["_"]}, oracle=c20_oracle)]


def c20_oracle(steps):
    """canonicity: for CCTP/Hyperlane an accepted counterparty is the decimal form of a uint32;
    the textual form parses back; pure functions never panic."""
    import re
    out = []
    for s in steps:
        if s.op != "pure":
            continue
        f = s.line.split(" ")
        if s.impl_raw.startswith("panic"):
            out.append((s.i, "panic: " + s.line[:120]))
            continue
        if f[1] == "cpid" and f[2] in ("2", "3"):
            c = unhx(f[3]).decode("utf-8", "replace")
            canonical = bool(re.fullmatch(r"0|[1-9][0-9]*", c)) and int(c) < 2 ** 32
            if (s.impl_raw == "ok") != canonical:
                out.append((s.i, "non-canonical: counterparty %r for protocol %s is %s but canonical=%s" % (c, f[2], s.impl_raw, canonical)))
    # round trip ccid -> parseccid is checked through dedicated paired lines (the id text is fed back)
    return out


# =====================================================================================================
# helpers shared by the application-level properties
import json as _json

from proto import ORB, ORB_BYTES, DUST_BYTES, AUTHORITY, b32, addr, cctp_fwd, int_fwd, hyp_fwd, fee_action, orb_pkt, pkt_line, ftpd, memo, msg_line, b64
from gen import U, USERS, DENOMS, CHANNELS, SRC_CHANNELS, PROTO_NAMES, ACTION_NAMES, CCTP_DOMAINS

ORBHEX = ORB_BYTES.hex()
DUSTHEX = DUST_BYTES.hex()


def parse_delta(s):
    """'addr/denomhex:+5,…' -> {(addr, denom str): int}"""
    d = {}
    if not s or s == "-":
        return d
    for e in s.split(","):
        k, v = e.rsplit(":", 1)
        a, dn = k.split("/", 1)
        d[(a, unhx(dn).decode("utf-8", "replace"))] = int(v)
    return d


def parse_sup(s):
    d = {}
    if not s or s == "-":
        return d
    for e in s.split(","):
        k, v = e.rsplit(":", 1)
        d[unhx(k).decode("utf-8", "replace")] = int(v)
    return d


def packet_of(line):
    """decode a recv-like line -> dict(src_port, src_chan, dst_port, dst_chan, data(bytes), ftpd(dict|None), payload(dict|None))"""
    f = line.split(" ")
    p = {"src_port": unhx(f[1]).decode("utf-8", "replace"), "src_chan": unhx(f[2]).decode("utf-8", "replace"),
         "dst_port": unhx(f[3]).decode("utf-8", "replace"), "dst_chan": unhx(f[4]).decode("utf-8", "replace"), "data": unhx(f[5])}
    p["ftpd"] = None
    p["payload"] = None
    try:
        d = _json.loads(p["data"].decode("utf-8"))
        if isinstance(d, dict):
            p["ftpd"] = d
            try:
                m = _json.loads(d.get("memo", ""))
                if isinstance(m, dict) and isinstance(m.get("orbiter"), dict):
                    p["payload"] = m["orbiter"]
            except Exception:
                pass
    except Exception:
        pass
    return p


def receiver_is_orbiter(p):
    if not p["ftpd"] or not isinstance(p["ftpd"].get("receiver"), str):
        return False
    a = decode_addr(p["ftpd"]["receiver"])
    return a == ORB_BYTES


RECV_OPS = ("recv", "recvh")


class Ledger:
    """Python-side running view of balances, built only from implementation observations."""

    def __init__(self):
        self.orb = {}

    def apply(self, step):
        if step.op == "deposit" and step.impl_raw == "ok":
            f = step.line.split(" ")
            if f[1] == ORBHEX:
                d = unhx(f[2]).decode()
                self.orb[d] = self.orb.get(d, 0) + int(f[3])
        if step.op in RECV_OPS:
            for (a, dn), v in parse_delta(step.impl.get("bal")).items():
                if a == ORBHEX:
                    self.orb[dn] = self.orb.get(dn, 0) + v


def c01_oracle(steps):
    out = []
    led = Ledger()
    for s in steps:
        before = dict(led.orb)
        led.apply(s)
        if s.op not in RECV_OPS:
            continue
        ack = s.impl.get("ack")
        if ack != "ok":
            continue
        delta = parse_delta(s.impl.get("bal"))
        for (a, dn), v in delta.items():
            if a == ORBHEX and v > 0:
                out.append((s.i, "stranded: success acknowledgement and the orbiter balance of %s grew by %d" % (dn, v)))
        p = packet_of(s.line)
        if receiver_is_orbiter(p):
            # the whole delivered coin has left: nothing of the delivered denom stays
            dn = p["ftpd"].get("denom", "")
            pre = p["src_port"] + "/" + p["src_chan"] + "/"
            if dn.startswith(pre):
                dn = dn[len(pre):]
            if led.orb.get(dn, 0) != 0:
                out.append((s.i, "stranded: success acknowledgement but %d %s remain on the orbiter account" % (led.orb.get(dn, 0), dn)))
    return out


def c14_oracle(steps):
    out = []
    for s in steps:
        if s.op in RECV_OPS and s.impl.get("ack") == "panic":
            # attribution rule (DESIGN.md C14): a panic raised inside the wrapped ICS-20 application for a packet the
            # middleware passed on unchanged is inherited from ibc-go
            if s.impl.get("pattr") == "app" and not receiver_is_orbiter(packet_of(s.line)):
                continue
            out.append((s.i, "panic: receive path panicked (attributed to %s)" % s.impl.get("pattr")))
        if s.op in ("msg", "query") and s.impl.get("res") == "panic":
            out.append((s.i, "panic: %s panicked" % s.op))
        if s.op == "pure" and s.impl_raw.startswith("panic"):
            out.append((s.i, "panic: parser entry point panicked"))
    return out


def rollback_oracle(steps):
    """an error acknowledgement commits nothing (C03)"""
    out = []
    prev_st = None
    for s in steps:
        if s.op in RECV_OPS:
            if s.impl.get("ack") in ("err", "panic"):
                if s.impl.get("bal") != "-" or s.impl.get("sup") != "-":
                    out.append((s.i, "partial: error acknowledgement but balances changed: %s" % s.impl.get("bal", "")[:200]))
                if prev_st is not None and s.impl.get("st") != prev_st:
                    out.append((s.i, "partial: error acknowledgement but orbiter state changed"))
        if "st" in s.impl:
            prev_st = s.impl["st"]
    return out


def history_stream(name, seed_tag, tier, seed, n_quick, n_thorough, fields, oracle, n_hist_quick=3, n_hist_thorough=12, **kw):
    out = []
    nh = n_hist_thorough if tier == "thorough" else n_hist_quick
    n = n_thorough if tier == "thorough" else n_quick
    for h in range(nh):
        r = Rng(seed * 100000 + seed_tag * 100 + h)
        lines, toks = scen.base_setup()
        lines += scen.tuned_history(r, n, toks, **kw)
        out.append(Stream("%s-%d" % (name, h), lines, fields=fields, oracle=oracle))
    return out


# ----------------------------------------------------------------------------------------------- C01

def c01_targeted(r):
    """receiver grid x routes x prior deposits x pause states."""
    lines, toks = scen.base_setup()
    recvs = [ORB, ORB.upper(), ORB[:8] + ORB[8:].upper(), "cosmos" + ORB[5:], b32(DUST_BYTES), U[0], b32(bytes(20)), ORB + " ", "", "garbage"]
    tok = toks[0][0]
    routes = [cctp_fwd(domain=0), int_fwd(U[1]), int_fwd(ORB), int_fwd(ORB.upper()), hyp_fwd(tok, domain=1), int_fwd(b32(DUST_BYTES)),
              cctp_fwd(domain=0, mint=b"\x00" * 32), cctp_fwd(domain=9)]
    feesets = [None, [fee_action([(U[2], "b", 100)])], [fee_action([(ORB, "b", 100)])], [fee_action([(ORB, "a", 5), (U[3], "a", 5)])], [fee_action([])]]
    for rc in recvs:
        for rt in routes:
            for fs in (feesets if rc == ORB else feesets[:2]):
                if r.chance(1, 3):
                    lines.append("deposit %s %s %d" % (hx(ORB_BYTES), hx("uusdc"), r.range(1, 999)))
                lines.append(orb_pkt("recv", r.choice([1000, 10 ** 6, 7]), rt, fs, receiver=rc))
    # plain transfers to the orbiter account with every kind of memo
    for m in ["", "{}", "null", "{\"orbiter\":null}", "{\"orbiter\":{}}", "[]", "x", "{\"forward\":{}}", "{\"orbiter\":{\"forwarding\":null}}"]:
        lines.append(pkt_line("recv", ftpd("transfer/channel-7/uusdc", 1000, ORB, m)))
        lines.append(pkt_line("recv", ftpd("uatom", 1000, ORB, m)))
        lines.append(pkt_line("recv", ftpd("transfer/channel-7/uusdc", 1000, ORB.upper(), m)))
    return lines


@prop
class C01(Base):
    id = "C01"
    assumptions = ["IBC core commits the cached state iff the acknowledgement is a success (emulated by the harness as ibc-go's RecvPacket does)",
                   "bank / ICS-20 / bridge contracts of DESIGN.md §3.6"]

    def streams(self, tier, seed):
        f = {"recv": ["ack", "bal"], "recvh": ["ack", "bal"]}
        sts = [Stream("S3-receiver-grid", c01_targeted(Rng(seed * 1000 + 1)), fields=f, oracle=c01_oracle)]
        sts += history_stream("S3-history", 1, tier, seed, 150, 600, f, c01_oracle)
        return sts


# ----------------------------------------------------------------------------------------------- C14 / C15

def c14_packets(r, toks, per_shape):
    """mutated payloads through the whole stack (to the orbiter address), extreme attribute values, raw bytes"""
    lines = []
    shapes = scen.payload_shapes(toks)
    for doc in shapes:
        ms = scen.mutations(doc, r, per_shape)
        for m in ms:
            denom = "uusdc"
            lines.append(pkt_line("recv", ftpd("transfer/channel-7/" + denom, r.choice([1000, 10 ** 6]), ORB, m)))
    for m in scen.EXTRA_MEMOS:
        lines.append(pkt_line("recv", ftpd("transfer/channel-7/uusdc", 1000, ORB, m)))
    # extreme packet fields
    good = memo(int_fwd(U[1]))
    for amt in ["0", "-1", "+5", "007", "0x10", "1_0", "", "x", str(2 ** 256 - 1), str(2 ** 256), "1e3", " 1", "1.0"]:
        lines.append(pkt_line("recv", ftpd("transfer/channel-7/uusdc", amt, ORB, good)))
    for dn in ["transfer/channel-7/x", "transfer/channel-7/ab", "transfer/channel-7/1abc", "transfer/channel-7/", "transfer/channel-7/a b c", "transfer/channel-7/" + "a" * 129,
               "transfer/channel-7/transfer/channel-3/uusdc", "uusdc", "", "/", "transfer/channel-7/uusdc/", "transfer/channel-7/ibc/ABC"]:
        lines.append(pkt_line("recv", ftpd(dn, 1000, ORB, good)))
        lines.append(pkt_line("recv", ftpd(dn, 1000, U[0], "")))
    for sp, sc, dp, dc in [("", "channel-7", "transfer", "channel-0"), ("transfer", "", "transfer", "channel-0"), ("transfer", "channel-7", "transfer", "chan"),
                           ("transfer", "channel-7", "transfer", ""), ("transfer", "channel-7", "", "channel-0"), ("transfer", "channel-7", "transfer", "channel-18446744073709551616"),
                           ("tr ansfer", "channel-7", "transfer", "channel-0")]:
        lines.append(pkt_line("recv", ftpd(sp + "/" + sc + "/uusdc", 1000, ORB, good), src_port=sp, src_chan=sc, dst_port=dp, dst_chan=dc))
    # raw bytes as packet data
    for b in scen.random_bytes_memos(r, 60):
        lines.append(pkt_line("recv", b))
    for b in [b"", b"null", b"[]", b"{}", b"{\"receiver\":\"" + ORB.encode() + b"\"}", b"{\"receiver\":\"" + ORB.encode() + b"\",\"memo\":\"{}\"}",
              b"{\"denom\":1}", b"{\"denom\":null,\"receiver\":\"" + ORB.encode() + b"\"}", b"{\"receiver\":\"" + ORB.encode() + b"\"} trailing", b"{\"extra\":1,\"receiver\":\"" + ORB.encode() + b"\"}",
              b"{\"Receiver\":\"" + ORB.encode() + b"\"}"]:
        lines.append(pkt_line("recv", b))
    # hyperlane extreme attribute values
    tok = toks[0][0]
    for rec in [b"", b"\x01" * 31, b"\x01" * 33, b"\x01" * 32]:
        for fee in [None, ("uusdc", -1), ("x", 5), ("", 5), ("uusdc", 0), ("uusdc", 2 ** 256 - 1)]:
            for gas in [None, -1, 0, 2 ** 256 - 1]:
                lines.append(orb_pkt("recv", 1000, hyp_fwd(tok, domain=1, recipient=rec, gas=gas, fee=fee)))
    for t in [b"", b"\x01" * 31, b"\x02" * 32]:
        lines.append(orb_pkt("recv", 1000, hyp_fwd(t, domain=1)))
    # fee extremes end to end
    lines.append(orb_pkt("recv", 2 ** 256 - 1, int_fwd(U[1]), [fee_action([(U[0], "a", 2 ** 255), (U[2], "a", 2 ** 255)])], denom="uother"))
    lines.append(orb_pkt("recv", 10 ** 30, int_fwd(U[1]), [fee_action([(U[0], "b", 10000), (U[2], "b", 10000)])], denom="uother"))
    return lines


@prop
class C14(Base):
    id = "C14"
    assumptions = ["panics inside external modules on requests the orbiter validated, stack exhaustion and out-of-memory cannot be exhibited by the model",
                   "a panic raised below the wrapped application for a packet the middleware passed on unchanged is attributed to ibc-go, not to the orbiter"]

    def streams(self, tier, seed):
        r = Rng(seed * 1000 + 14)
        lines, toks = scen.base_setup()
        per = 400 if tier == "thorough" else 90
        s1 = scen.parse_lines_for(scen.payload_shapes(toks), r.fork(1), per * 2) + ["pure parse " + hx(m) for m in scen.EXTRA_MEMOS]
        s1 += ["pure parse " + hx(b) for b in scen.random_bytes_memos(r.fork(2), 300 if tier == "thorough" else 80)]
        s1 += ["pure ics20 " + hx(b) for b in scen.random_bytes_memos(r.fork(3), 100)]
        s3 = lines + c14_packets(r.fork(4), toks, per)
        return [Stream("S1-parser-mutations", s1, fields={"pure": ["_"]}, oracle=c14_oracle),
                Stream("S3-malformed-packets", s3, fields={"recv": ["ack", "src"]}, oracle=c14_oracle)]
