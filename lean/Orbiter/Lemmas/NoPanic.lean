/-
  Where a panic can come from (C14). `r.PanicsIn P`: if `r` is a panic, its site satisfies `P`.
  The leaf decoders live in `Dec` and cannot panic by construction; the only panic of the parser is the
  generated marshaller's on a nil element of `fees_info`, excluded by the null-in-array pre-check.
-/
import Orbiter.Lemmas.Ctx
namespace Orbiter

def Res.PanicsIn {α} (P : String → Prop) (r : Res α) : Prop := ∀ s, r = .panic s → P s

abbrev Res.NoPanic {α} (r : Res α) : Prop := r.PanicsIn (fun _ => False)

namespace Res

theorem PanicsIn.mono {α} {P Q : String → Prop} {r : Res α} (h : r.PanicsIn P) (hpq : ∀ s, P s → Q s) : r.PanicsIn Q :=
  fun s hs => hpq s (h s hs)

theorem PanicsIn.ok {α} {P : String → Prop} (a : α) : (Res.ok a).PanicsIn P := fun _ h => by cases h
theorem PanicsIn.err {α} {P : String → Prop} (e : String) : (Res.err e : Res α).PanicsIn P := fun _ h => by cases h
theorem PanicsIn.pure {α} {P : String → Prop} (a : α) : (Pure.pure a : Res α).PanicsIn P := fun _ h => by cases h

theorem PanicsIn.toRes {α} {P : String → Prop} (d : Dec α) : d.toRes.PanicsIn P :=
  fun s h => absurd h (Dec.toRes_ne_panic d s)

theorem PanicsIn.bind {α β} {P : String → Prop} {x : Res α} {f : α → Res β}
    (h1 : x.PanicsIn P) (h2 : ∀ a, x = .ok a → (f a).PanicsIn P) : (x >>= f).PanicsIn P := by
  intro s hs
  cases x with
  | ok a => exact h2 a rfl s (by simpa using hs)
  | err e => simp at hs
  | panic s' => simp only [Res.bind_panic, Res.panic.injEq] at hs; exact h1 s (by rw [hs])

theorem PanicsIn.map {α β} {P : String → Prop} {x : Res α} (f : α → β) (h : x.PanicsIn P) : (x.map f).PanicsIn P := by
  intro s hs
  cases x with
  | ok a => simp [Res.map] at hs
  | err e => simp [Res.map] at hs
  | panic s' => simp only [Res.map, Res.panic.injEq] at hs; exact h s (by rw [hs])

theorem PanicsIn.mapErr {α} {P : String → Prop} {x : Res α} (f : String → String) (h : x.PanicsIn P) : (x.mapErr f).PanicsIn P := by
  intro s hs
  cases x with
  | ok a => simp [Res.mapErr] at hs
  | err e => simp [Res.mapErr] at hs
  | panic s' => simp only [Res.mapErr, Res.panic.injEq] at hs; exact h s (by rw [hs])

/-- A guard statement of a `do` block. -/
theorem PanicsIn.guard {α} {P : String → Prop} {c : Prop} [Decidable c] {e : String} {k : Unit → Res α}
    (h : ¬ c → (k ()).PanicsIn P) : (if c then ((Res.err e : Res Unit) >>= k) else k ()).PanicsIn P := by
  by_cases hc : c
  · simp only [hc, ↓reduceIte, Res.bind_err]; exact PanicsIn.err e
  · simp only [hc, ↓reduceIte]; exact h hc

theorem PanicsIn.ite {α} {P : String → Prop} {c : Prop} [Decidable c] {a b : Res α}
    (ha : c → a.PanicsIn P) (hb : ¬ c → b.PanicsIn P) : (if c then a else b).PanicsIn P := by
  by_cases hc : c
  · simp only [hc, ↓reduceIte]; exact ha hc
  · simp only [hc, ↓reduceIte]; exact hb hc

theorem PanicsIn.allM {α} {P : String → Prop} {f : α → Res Unit} {l : List α} (h : ∀ a ∈ l, (f a).PanicsIn P) :
    (Res.allM f l).PanicsIn P := by
  induction l with
  | nil => exact PanicsIn.ok ()
  | cons x xs ih =>
    simp only [Res.allM]
    exact PanicsIn.bind (h x List.mem_cons_self) (fun _ _ => ih (fun a ha => h a (List.mem_cons_of_mem _ ha)))

theorem PanicsIn.mapM {α β} {P : String → Prop} {f : α → Res β} {l : List α} (h : ∀ a ∈ l, (f a).PanicsIn P) :
    (l.mapM f).PanicsIn P := by
  induction l with
  | nil => simp only [List.mapM_nil]; exact PanicsIn.pure []
  | cons x xs ih =>
    rw [List.mapM_cons]
    exact PanicsIn.bind (h x List.mem_cons_self)
      (fun _ _ => PanicsIn.bind (ih (fun a ha => h a (List.mem_cons_of_mem _ ha))) (fun _ _ => PanicsIn.pure _))

end Res

/-! ### JSON trees without a null inside an array -/

theorem nullInArrayFields_false {fs : List (String × Json)} (h : nullInArrayFields fs = false) :
    ∀ kv ∈ fs, kv.2.nullInArray = false := by
  induction fs with
  | nil => intro kv hkv; cases hkv
  | cons x xs ih =>
    obtain ⟨k, v⟩ := x
    simp only [nullInArrayFields, Bool.or_eq_false_iff] at h
    intro kv hkv
    rcases List.mem_cons.mp hkv with rfl | hm
    · exact h.1
    · exact ih h.2 kv hm

theorem nullInArrayList_false {l : List Json} (h : nullInArrayList l = false) : ∀ x ∈ l, x.nullInArray = false := by
  induction l with
  | nil => intro x hx; cases hx
  | cons y ys ih =>
    simp only [nullInArrayList, Bool.or_eq_false_iff] at h
    intro x hx
    rcases List.mem_cons.mp hx with rfl | hm
    · exact h.1
    · exact ih h.2 x hm

theorem lookupLast_mem {fs : List (String × Json)} {k : String} {v : Json} (h : Json.lookupLast fs k = some v) :
    ∃ kv ∈ fs, kv.2 = v := by
  unfold Json.lookupLast at h
  have key : ∀ (l : List (String × Json)) (acc : Option Json),
      l.foldl (fun acc (kv : String × Json) => if kv.1 == k then some kv.2 else acc) acc = some v →
      (acc = some v ∨ ∃ kv ∈ l, kv.2 = v) := by
    intro l
    induction l with
    | nil => intro acc h; exact Or.inl h
    | cons x xs ih =>
      intro acc h
      simp only [List.foldl_cons] at h
      rcases ih _ h with h1 | ⟨kv, hm, hv⟩
      · split at h1
        · right; exact ⟨x, List.mem_cons_self, by simpa using h1⟩
        · exact Or.inl h1
      · right; exact ⟨kv, List.mem_cons_of_mem _ hm, hv⟩
  rcases key fs none h with h1 | h1
  · cases h1
  · exact h1

theorem lookupLast_key {fs : List (String × Json)} {k : String} {v : Json} (h : Json.lookupLast fs k = some v) :
    ∃ kv ∈ fs, kv.1 = k := by
  unfold Json.lookupLast at h
  have key : ∀ (l : List (String × Json)) (acc : Option Json),
      l.foldl (fun acc (kv : String × Json) => if kv.1 == k then some kv.2 else acc) acc = some v →
      (acc = some v ∨ ∃ kv ∈ l, kv.1 = k) := by
    intro l
    induction l with
    | nil => intro acc h; exact Or.inl h
    | cons x xs ih =>
      intro acc h
      simp only [List.foldl_cons] at h
      rcases ih _ h with h1 | ⟨kv, hm, hv⟩
      · split at h1
        · rename_i hk
          right; exact ⟨x, List.mem_cons_self, by simpa using hk⟩
        · exact Or.inl h1
      · right; exact ⟨kv, List.mem_cons_of_mem _ hm, hv⟩
  rcases key fs none h with h1 | h1
  · cases h1
  · exact h1

/-- All values below a field list are free of nulls in arrays. -/
def FieldsNIA (fs : List (String × Json)) : Prop := ∀ kv ∈ fs, kv.2.nullInArray = false

theorem FieldsNIA.eraseKey {fs : List (String × Json)} (h : FieldsNIA fs) (k : String) : FieldsNIA (Json.eraseKey fs k) := by
  intro kv hkv
  exact h kv (List.mem_filter.mp hkv).1

theorem takeField_NIA {fs : Fields} (h : FieldsNIA fs) (a b : String) :
    (∀ v, (takeField fs a b).1 = some v → v.nullInArray = false) ∧ FieldsNIA (takeField fs a b).2 := by
  unfold takeField
  simp only
  refine ⟨?_, (h.eraseKey a).eraseKey b⟩
  intro v hv
  cases hc : Json.lookupLast fs b with
  | some x =>
    simp only [hc, Option.some.injEq] at hv
    subst hv
    obtain ⟨kv, hm, rfl⟩ := lookupLast_mem hc
    exact h kv hm
  | none =>
    simp only [hc] at hv
    obtain ⟨kv, hm, rfl⟩ := lookupLast_mem hv
    exact h kv hm

theorem asObject_NIA {j : Json} {fs : Fields} (hj : j.nullInArray = false) (h : asObject j = .ok fs) : FieldsNIA fs := by
  unfold asObject at h
  cases j with
  | obj f =>
    simp only [Dec.ok.injEq] at h
    subst h
    simp only [Json.nullInArray] at hj
    exact nullInArrayFields_false hj
  | null => simp only [Dec.ok.injEq] at h; subst h; intro kv hkv; cases hkv
  | bool b => cases h
  | num r => cases h
  | str v p => cases h
  | arr i => cases h

/-! ### the parser -/

theorem mapM_no_none {α} (dec : Json → Dec α) (items : List Json) (l : List (Option α))
    (hn : items.any Json.isNull = false)
    (h : items.mapM (fun it => match it with | .null => (Dec.ok none : Dec (Option α)) | x => (dec x).map some) = .ok l) :
    l.any Option.isNone = false := by
  induction items generalizing l with
  | nil => simp only [List.mapM_nil, Dec.pure_eq, Dec.ok.injEq] at h; subst h; rfl
  | cons it rest ih =>
    simp only [List.any_cons, Bool.or_eq_false_iff] at hn
    rw [List.mapM_cons] at h
    obtain ⟨b, hb, h⟩ := Dec.bind_eq_ok.mp h
    obtain ⟨bs, hbs, h⟩ := Dec.bind_eq_ok.mp h
    simp only [Dec.pure_eq, Dec.ok.injEq] at h
    subst h
    simp only [List.any_cons, Bool.or_eq_false_iff]
    refine ⟨?_, ih bs hn.2 hbs⟩
    cases it with
    | null => simp [Json.isNull] at hn
    | bool x => simp only at hb; cases hd : dec (.bool x) <;> simp [hd, Dec.map] at hb; subst hb; rfl
    | num x => simp only at hb; cases hd : dec (.num x) <;> simp [hd, Dec.map] at hb; subst hb; rfl
    | str x y => simp only at hb; cases hd : dec (.str x y) <;> simp [hd, Dec.map] at hb; subst hb; rfl
    | arr x => simp only at hb; cases hd : dec (.arr x) <;> simp [hd, Dec.map] at hb; subst hb; rfl
    | obj x => simp only at hb; cases hd : dec (.obj x) <;> simp [hd, Dec.map] at hb; subst hb; rfl

theorem decRepeated_no_none {α} (dec : Json → Dec α) (j : Json) (l : List (Option α)) (hj : j.nullInArray = false)
    (h : decRepeated dec j = .ok l) : l.any Option.isNone = false := by
  unfold decRepeated at h
  cases j with
  | null => simp only [Dec.ok.injEq] at h; subst h; rfl
  | arr items =>
    simp only [Json.nullInArray, Bool.or_eq_false_iff] at hj
    exact mapM_no_none dec items l hj.1 h
  | bool b => cases h
  | num r => cases h
  | str v p => cases h
  | obj f => cases h

/-- The one panic of the parser is unreachable once no array of the memo holds a `null`. -/
theorem decFee_noPanic (π : OneofOrder) (fs : Fields) (h : FieldsNIA fs) : (decFee π fs).NoPanic := by
  unfold decFee
  obtain ⟨hv, hrest⟩ := takeField_NIA h "fees_info" "feesInfo"
  simp only
  refine Res.PanicsIn.bind (P := fun _ => False) (Res.PanicsIn.toRes _) ?_
  intro infos hinfos
  refine Res.PanicsIn.bind (P := fun _ => False) (Res.PanicsIn.toRes _) ?_
  intro _ _
  have hnone : infos.any Option.isNone = false := by
    cases hf : (takeField fs "fees_info" "feesInfo").1 with
    | none =>
      simp only [hf, Dec.pure_eq, Dec.toRes, Res.ok.injEq] at hinfos
      subst hinfos; rfl
    | some v =>
      simp only [hf] at hinfos
      cases hd : decRepeated (decFeeInfo π) v with
      | err e => simp [hd, Dec.toRes] at hinfos
      | ok l =>
        simp only [hd, Dec.toRes, Res.ok.injEq] at hinfos
        subst hinfos
        exact decRepeated_no_none _ v l (hv v hf) hd
  simp only [hnone, Bool.false_eq_true, ↓reduceIte]
  exact Res.PanicsIn.pure _

theorem decAny_noPanic (π : OneofOrder) (j : Json) (hj : j.nullInArray = false) : (decAny π j).NoPanic := by
  unfold decAny
  cases j with
  | null => exact Res.PanicsIn.ok _
  | obj fs =>
    simp only
    have hfs : FieldsNIA fs := by simp only [Json.nullInArray] at hj; exact nullInArrayFields_false hj
    cases Json.lookupLast fs "@type" with
    | none => exact Res.PanicsIn.err _
    | some t =>
      cases t with
      | null => exact Res.PanicsIn.err _
      | str url p =>
        simp only
        repeat' (first | apply Res.PanicsIn.ite <;> intro _ | exact Res.PanicsIn.toRes _ | exact Res.PanicsIn.err _)
        exact Res.PanicsIn.map _ (decFee_noPanic π _ (hfs.eraseKey "@type"))
      | bool b => exact Res.PanicsIn.err _
      | num r => exact Res.PanicsIn.err _
      | arr i => exact Res.PanicsIn.err _
      | obj f => exact Res.PanicsIn.err _
  | bool b => exact Res.PanicsIn.err _
  | num r => exact Res.PanicsIn.err _
  | str v p => exact Res.PanicsIn.err _
  | arr i => exact Res.PanicsIn.err _


/-- Closes a goal whose remaining statements are lifted `Dec` calls, pures and errors. -/
macro "np_tail" : tactic => `(tactic|
  repeat (first
    | exact Res.PanicsIn.pure _
    | exact Res.PanicsIn.err _
    | exact Res.PanicsIn.ok _
    | (refine Res.PanicsIn.bind (P := fun _ => False) (Res.PanicsIn.toRes _) ?_; intro _ _)
    | (refine Res.PanicsIn.bind (P := fun _ => False) (Res.PanicsIn.pure _) ?_; intro _ _)))

theorem toRes_ok {α} {d : Dec α} {a : α} (h : d.toRes = .ok a) : d = .ok a := by
  cases d with
  | ok x => simp only [Dec.toRes, Res.ok.injEq] at h; rw [h]
  | err e => simp [Dec.toRes] at h

theorem decAction_noPanic (π : OneofOrder) (j : Json) (hj : j.nullInArray = false) : (decAction π j).NoPanic := by
  unfold decAction
  refine Res.PanicsIn.bind (P := fun _ => False) (Res.PanicsIn.toRes _) ?_
  intro fs hfs
  have hF : FieldsNIA fs := asObject_NIA hj (toRes_ok hfs)
  obtain ⟨_, hF1⟩ := takeField_NIA hF "id" "id"
  obtain ⟨hv2, _⟩ := takeField_NIA hF1 "attributes" "attributes"
  rcases hq1 : takeField fs "id" "id" with ⟨i, fs1⟩
  rw [hq1] at hF1 hv2
  simp only at hF1 hv2 ⊢
  rcases hq2 : takeField fs1 "attributes" "attributes" with ⟨a, fs2⟩
  rw [hq2] at hv2
  simp only at hv2 ⊢
  refine Res.PanicsIn.bind (P := fun _ => False) (Res.PanicsIn.toRes _) ?_
  intro id _
  cases a with
  | none => simp only; np_tail
  | some v =>
    simp only
    refine Res.PanicsIn.bind (P := fun _ => False) (decAny_noPanic π v (hv2 v rfl)) ?_
    intro attrs _
    np_tail

theorem decForwarding_noPanic (π : OneofOrder) (j : Json) (hj : j.nullInArray = false) : (decForwarding π j).NoPanic := by
  unfold decForwarding
  refine Res.PanicsIn.bind (P := fun _ => False) (Res.PanicsIn.toRes _) ?_
  intro fs hfs
  have hF : FieldsNIA fs := asObject_NIA hj (toRes_ok hfs)
  obtain ⟨_, hF1⟩ := takeField_NIA hF "protocol_id" "protocolId"
  obtain ⟨hv2, _⟩ := takeField_NIA hF1 "attributes" "attributes"
  rcases hq1 : takeField fs "protocol_id" "protocolId" with ⟨i, fs1⟩
  rw [hq1] at hF1 hv2
  simp only at hF1 hv2 ⊢
  rcases hq2 : takeField fs1 "attributes" "attributes" with ⟨a, fs2⟩
  rw [hq2] at hv2
  simp only at hv2 ⊢
  rcases hq3 : takeField fs2 "passthrough_payload" "passthroughPayload" with ⟨pt, fs3⟩
  simp only
  refine Res.PanicsIn.bind (P := fun _ => False) (Res.PanicsIn.toRes _) ?_
  intro id _
  cases a with
  | none => simp only; np_tail
  | some v =>
    simp only
    refine Res.PanicsIn.bind (P := fun _ => False) (decAny_noPanic π v (hv2 v rfl)) ?_
    intro attrs _
    np_tail

theorem decRepeatedR_noPanic {α} (dec : Json → Res α) (j : Json) (hj : j.nullInArray = false)
    (hdec : ∀ x, x.nullInArray = false → (dec x).NoPanic) : (decRepeatedR dec j).NoPanic := by
  unfold decRepeatedR
  cases j with
  | null => exact Res.PanicsIn.ok _
  | arr items =>
    simp only [Json.nullInArray, Bool.or_eq_false_iff] at hj
    simp only
    apply Res.PanicsIn.mapM
    intro it hit
    have := nullInArrayList_false hj.2 it hit
    cases it with
    | null => exact Res.PanicsIn.ok _
    | bool b => exact Res.PanicsIn.map _ (hdec _ this)
    | num r => exact Res.PanicsIn.map _ (hdec _ this)
    | str v p => exact Res.PanicsIn.map _ (hdec _ this)
    | arr i => exact Res.PanicsIn.map _ (hdec _ this)
    | obj f => exact Res.PanicsIn.map _ (hdec _ this)
  | bool b => exact Res.PanicsIn.err _
  | num r => exact Res.PanicsIn.err _
  | str v p => exact Res.PanicsIn.err _
  | obj f => exact Res.PanicsIn.err _

theorem decPayload_noPanic (π : OneofOrder) (j : Json) (hj : j.nullInArray = false) : (decPayload π j).NoPanic := by
  unfold decPayload
  refine Res.PanicsIn.bind (P := fun _ => False) (Res.PanicsIn.toRes _) ?_
  intro fs hfs
  have hF : FieldsNIA fs := asObject_NIA hj (toRes_ok hfs)
  obtain ⟨hv1, hF1⟩ := takeField_NIA hF "pre_actions" "preActions"
  obtain ⟨hv2, _⟩ := takeField_NIA hF1 "forwarding" "forwarding"
  rcases hq1 : takeField fs "pre_actions" "preActions" with ⟨pa, fs1⟩
  rw [hq1] at hF1 hv1 hv2
  simp only at hF1 hv1 hv2 ⊢
  rcases hq2 : takeField fs1 "forwarding" "forwarding" with ⟨fw, fs2⟩
  rw [hq2] at hv2
  simp only at hv2 ⊢
  have tailFw : ∀ acts : List (Option Action), Res.NoPanic (match fw with
      | some .null => (do let fwd ← (pure none : Res (Option Forwarding)); (noUnknown fs2).toRes; pure ({ forwarding := fwd, preActions := acts } : RawPayload))
      | some v => do let fwd ← (decForwarding π v).map some; (noUnknown fs2).toRes; pure { forwarding := fwd, preActions := acts }
      | none => do let fwd ← (pure none : Res (Option Forwarding)); (noUnknown fs2).toRes; pure { forwarding := fwd, preActions := acts }) := by
    intro acts
    cases fw with
    | none => simp only; np_tail
    | some v =>
      have := hv2 v rfl
      cases v with
      | null => simp only; np_tail
      | bool b => simp only; refine Res.PanicsIn.bind (P := fun _ => False) (Res.PanicsIn.map _ (decForwarding_noPanic π _ this)) ?_; intro _ _; np_tail
      | num r => simp only; refine Res.PanicsIn.bind (P := fun _ => False) (Res.PanicsIn.map _ (decForwarding_noPanic π _ this)) ?_; intro _ _; np_tail
      | str s p => simp only; refine Res.PanicsIn.bind (P := fun _ => False) (Res.PanicsIn.map _ (decForwarding_noPanic π _ this)) ?_; intro _ _; np_tail
      | arr i => simp only; refine Res.PanicsIn.bind (P := fun _ => False) (Res.PanicsIn.map _ (decForwarding_noPanic π _ this)) ?_; intro _ _; np_tail
      | obj f => simp only; refine Res.PanicsIn.bind (P := fun _ => False) (Res.PanicsIn.map _ (decForwarding_noPanic π _ this)) ?_; intro _ _; np_tail
  cases pa with
  | none => simp only [Res.pure_eq, Res.bind_ok]; exact tailFw []
  | some v =>
    simp only
    refine Res.PanicsIn.bind (P := fun _ => False) (decRepeatedR_noPanic _ v (hv1 v rfl) (fun x hx => decAction_noPanic π x hx)) ?_
    intro acts _
    exact tailFw acts

theorem decWrapper_noPanic (π : OneofOrder) (j : Json) (hj : j.nullInArray = false) : (decWrapper π j).NoPanic := by
  unfold decWrapper
  refine Res.PanicsIn.bind (P := fun _ => False) (Res.PanicsIn.toRes _) ?_
  intro fs hfs
  have hF : FieldsNIA fs := asObject_NIA hj (toRes_ok hfs)
  obtain ⟨hv1, _⟩ := takeField_NIA hF Gen.orbiterPrefix Gen.orbiterPrefix
  refine Res.PanicsIn.bind (P := fun _ => False) ?_ ?_
  · unfold decOrbiterValue
    cases ho : (takeField fs Gen.orbiterPrefix Gen.orbiterPrefix).1 with
    | none => exact Res.PanicsIn.err _
    | some v =>
      have := hv1 v ho
      cases v with
      | null => exact Res.PanicsIn.err _
      | bool b => exact decPayload_noPanic π _ this
      | num r => exact decPayload_noPanic π _ this
      | str s p => exact decPayload_noPanic π _ this
      | arr i => exact decPayload_noPanic π _ this
      | obj f => exact decPayload_noPanic π _ this
  · intro p _
    refine Res.PanicsIn.bind (P := fun _ => False) (Res.PanicsIn.toRes _) ?_
    intro _ _
    unfold unpackInterfaces
    refine Res.PanicsIn.bind (P := fun _ => False) ?_ ?_
    · apply Res.PanicsIn.allM
      intro a _
      unfold checkActionFamily
      split
      · split
        · exact Res.PanicsIn.err _
        · exact Res.PanicsIn.ok _
      · exact Res.PanicsIn.ok _
    · intro _ _
      refine Res.PanicsIn.bind (P := fun _ => False) ?_ (fun _ _ => Res.PanicsIn.pure _)
      unfold checkForwardingFamily
      split
      · split
        · exact Res.PanicsIn.err _
        · exact Res.PanicsIn.ok _
      · exact Res.PanicsIn.ok _

/-! ### validators: nests of `if`/`match` over `ok` and `err` -/

/-- For a term that is a nest of `if`/`match` whose leaves are `ok`/`err`. -/
macro "np_leaves" : tactic => `(tactic| (intro s h; (try simp only at h); repeat' (first | (cases h; done) | split at h)))

theorem TransferAttrs.validate_noPanic (t : TransferAttrs) : t.validate.NoPanic := by
  unfold TransferAttrs.validate; np_leaves

theorem Action.validate_noPanic (a : Action) : a.validate.NoPanic := by
  unfold Action.validate; np_leaves

theorem Forwarding.validate_noPanic (f : Forwarding) : f.validate.NoPanic := by
  unfold Forwarding.validate; np_leaves

theorem FeeInfo.validate_noPanic' (hrp : String) (f : FeeInfo) : (FeeInfo.validate hrp f).NoPanic := by
  unfold FeeInfo.validate
  refine Res.PanicsIn.bind (P := fun _ => False) ?_ ?_
  · unfold FeeInfo.checkType; np_leaves
  · intro _ _; unfold FeeInfo.checkRecipient; np_leaves

theorem validateFeeAttrs_noPanic (hrp : String) (infos : List FeeInfo) : (validateFeeAttrs hrp infos).NoPanic := by
  unfold validateFeeAttrs
  simp only
  apply Res.PanicsIn.guard
  intro _
  exact Res.PanicsIn.allM (fun f _ => FeeInfo.validate_noPanic' hrp f)

theorem Attrs.validate_noPanic (hrp : String) (orb : Bytes) (a : Attrs) : (a.validate hrp orb).NoPanic := by
  cases a with
  | cctp d m c => simp only [Attrs.validate]; np_leaves
  | hyp t d r h hm g fd fa => simp only [Attrs.validate]; np_leaves
  | internal r => simp only [Attrs.validate]; np_leaves
  | fee infos => simp only [Attrs.validate]; exact validateFeeAttrs_noPanic hrp infos

theorem RawPayload.validate_noPanic (p : RawPayload) : (RawPayload.validate p).NoPanic := by
  unfold RawPayload.validate
  simp only
  apply Res.PanicsIn.guard; intro _
  apply Res.PanicsIn.guard; intro _
  refine Res.PanicsIn.bind (P := fun _ => False) (Res.PanicsIn.allM (fun a _ => Action.validate_noPanic a)) ?_
  intro _ _
  cases p.forwarding with
  | none => exact Res.PanicsIn.err _
  | some f =>
    simp only
    exact Res.PanicsIn.bind (Forwarding.validate_noPanic f) (fun _ _ => Res.PanicsIn.pure _)

theorem Payload.validate_noPanic (p : Payload) : p.validate.NoPanic := by
  unfold Payload.validate
  simp only
  apply Res.PanicsIn.guard; intro _
  refine Res.PanicsIn.bind (P := fun _ => False) (Res.PanicsIn.allM (fun a _ => Action.validate_noPanic a)) ?_
  intro _ _
  cases p.forwarding with
  | none => exact Res.PanicsIn.err _
  | some f => exact Forwarding.validate_noPanic f

/-- **The parser never panics**, whatever the memo bytes. -/
theorem parsePayload_noPanic (π : OneofOrder) (memo : Bytes) : (parsePayload π memo).NoPanic := by
  unfold parsePayload
  cases parseJsonWhole memo with
  | none => exact Res.PanicsIn.err _
  | some j =>
    simp only
    apply Res.PanicsIn.ite
    · intro _; exact Res.PanicsIn.err _
    · intro _
      cases j with
      | obj fs =>
        simp only
        apply Res.PanicsIn.ite
        · intro _; exact Res.PanicsIn.err _
        · intro _
          cases hk : Json.lookupLast fs Gen.orbiterPrefix with
          | none => exact Res.PanicsIn.err _
          | some v =>
            have key : Res.NoPanic (if (Json.obj fs).nullInArray = true then (Res.err "parse:null-in-array" : Res Payload)
                else if (Json.obj fs).ambiguous = true then .err "parse:ambiguous-oneof"
                else ((decWrapper π (Json.obj fs)).mapErr fun t => "parse:codec:" ++ t) >>= RawPayload.validate) := by
              apply Res.PanicsIn.ite
              · intro _; exact Res.PanicsIn.err _
              · intro hn
                have hn' : (Json.obj fs).nullInArray = false := by simpa using hn
                apply Res.PanicsIn.ite
                · intro _; exact Res.PanicsIn.err _
                · intro _
                  exact Res.PanicsIn.bind (Res.PanicsIn.mapErr _ (decWrapper_noPanic π _ hn'))
                    (fun p _ => RawPayload.validate_noPanic p)
            cases v with
            | null => exact Res.PanicsIn.err _
            | bool b => exact key
            | num r => exact key
            | str x y => exact key
            | arr i => exact key
            | obj f => exact key
      | null => exact Res.PanicsIn.err _
      | bool b => exact Res.PanicsIn.err _
      | num r => exact Res.PanicsIn.err _
      | str x y => exact Res.PanicsIn.err _
      | arr i => exact Res.PanicsIn.err _


end Orbiter
