import Orbiter.Admin
import Orbiter.Lemmas.Order
/-!
`storetypes.PrefixEndBytes` against the lexicographic order of the store: the exclusive end it computes for a key `k` is
*not* the successor of `k` — it is the successor of everything that starts with `k`.  That is the whole content of the
SDK's reverse key pagination defect (known finding C13): a reverse range that should end *at* `k` ends after every key
that `k` is a proper prefix of.
-/
namespace Orbiter
open Orbiter

/-- `prefixEnd` by structural recursion on the key itself (the definition in `Admin.lean` follows the Go loop, from the end). -/
def prefixEndS : Bytes → Option Bytes
  | [] => none
  | x :: xs =>
    match prefixEndS xs with
    | some t => some (x :: t)
    | none => if x == 255 then none else some [x + 1]

theorem prefixEnd_go_snoc (l : List UInt8) (x : UInt8) :
    prefixEnd.go (l ++ [x]) =
      (match prefixEnd.go l with
       | some t => some (t ++ [x])
       | none => if x == 255 then none else some [x + 1]) := by
  induction l with
  | nil => simp [prefixEnd.go]
  | cons y l ih =>
    simp only [List.cons_append, prefixEnd.go]
    by_cases hy : (y == 255) = true
    · simp only [hy, ↓reduceIte, ih]
    · simp only [hy, Bool.false_eq_true, ↓reduceIte, List.cons_append]

theorem prefixEnd_eq_S (k : Bytes) : prefixEnd k = prefixEndS k := by
  induction k with
  | nil => simp [prefixEnd, prefixEnd.go, prefixEndS]
  | cons x xs ih =>
    unfold prefixEnd at ih ⊢
    simp only [List.reverse_cons, prefixEnd_go_snoc, prefixEndS, ← ih]
    cases prefixEnd.go xs.reverse with
    | some t => simp
    | none =>
      by_cases hx : (x == 255) = true
      · simp [hx]
      · simp [hx]

theorem u8_lt_succ {a b : UInt8} (ha : (a == 255) = false) : b < a + 1 ↔ ¬ (a < b) := by
  have ha' : a.toNat ≠ 255 := by
    intro h
    have : a = 255 := UInt8.toNat_inj.mp (by simpa using h)
    simp [this] at ha
  have hlt := a.toNat_lt
  rw [UInt8.lt_iff_toNat_lt, UInt8.lt_iff_toNat_lt, UInt8.toNat_add]
  simp
  omega

/-- What the exclusive end computed by `PrefixEndBytes` admits: everything not above `k`, **and everything that starts with `k`**. -/
theorem bytesLt_prefixEndS (k : Bytes) :
    (∀ h, prefixEndS k = some h → ∀ e, bytesLt e h = true ↔ (bytesLt k e = false ∨ k <+: e)) ∧
    (prefixEndS k = none → ∀ e, bytesLt k e = true → k <+: e) := by
  induction k with
  | nil =>
    refine ⟨?_, ?_⟩
    · intro h hh; simp [prefixEndS] at hh
    · intro _ e _; exact List.nil_prefix
  | cons a ks ih =>
    obtain ⟨ihS, ihN⟩ := ih
    refine ⟨?_, ?_⟩
    · intro h hh e
      simp only [prefixEndS] at hh
      cases hks : prefixEndS ks with
      | some t =>
        rw [hks] at hh
        simp only [Option.some.injEq] at hh
        subst hh
        cases e with
        | nil => simp [bytesLt]
        | cons b es =>
          simp only [bytesLt, List.cons_prefix_cons]
          by_cases h1 : b < a
          · have h2 : ¬ a < b := fun h => absurd h1 (UInt8.not_lt.mpr (UInt8.le_of_lt h))
            simp [h1, h2]
          · by_cases h2 : a < b
            · have hne : a ≠ b := fun h => by subst h; exact h1 h2
              simp [h1, h2, hne]
            · have hab : a = b := UInt8.le_antisymm (UInt8.not_lt.mp h1) (UInt8.not_lt.mp h2)
              subst hab
              simp only [h1, ↓reduceIte, true_and]
              exact ihS t hks es
      | none =>
        rw [hks] at hh
        by_cases hx : (a == 255) = true
        · simp [hx] at hh
        · have hx' : (a == 255) = false := by simpa using hx
          simp only [hx', Bool.false_eq_true, ↓reduceIte, Option.some.injEq] at hh
          subst hh
          cases e with
          | nil => simp [bytesLt]
          | cons b es =>
            simp only [bytesLt, List.cons_prefix_cons]
            have key := u8_lt_succ (b := b) hx'
            by_cases h2 : a < b
            · have h1 : ¬ b < a + 1 := fun h => (key.mp h) h2
              have hne : a ≠ b := fun h => by subst h; exact absurd h2 (UInt8.lt_irrefl _)
              cases es <;> simp [bytesLt, h1, h2, hne]
            · have h1 : b < a + 1 := key.mpr h2
              simp only [h1, ↓reduceIte, h2, true_iff]
              by_cases h3 : a > b
              · simp [h3]
              · have h3' : ¬ b < a := h3
                have hab : a = b := UInt8.le_antisymm (UInt8.not_lt.mp h3') (UInt8.not_lt.mp h2)
                subst hab
                simp only [h3, ↓reduceIte, true_and]
                cases hlt : bytesLt ks es with
                | false => exact Or.inl rfl
                | true => exact Or.inr (ihN hks es hlt)
    · intro hh e hlt
      simp only [prefixEndS] at hh
      cases hks : prefixEndS ks with
      | some t => rw [hks] at hh; simp at hh
      | none =>
        rw [hks] at hh
        by_cases hx : (a == 255) = true
        · have ha : a = 255 := by simpa using hx
          subst ha
          cases e with
          | nil => simp [bytesLt] at hlt
          | cons b es =>
            simp only [bytesLt] at hlt
            have hb : ¬ (255 : UInt8) < b := by
              rw [UInt8.lt_iff_toNat_lt]; have := b.toNat_lt; simp; omega
            simp only [hb, ↓reduceIte] at hlt
            by_cases h3 : (255 : UInt8) > b
            · simp [h3] at hlt
            · have h3' : ¬ b < 255 := h3
              have hab : (255 : UInt8) = b := UInt8.le_antisymm (UInt8.not_lt.mp h3') (UInt8.not_lt.mp hb)
              subst hab
              simp only [h3, ↓reduceIte] at hlt
              exact List.cons_prefix_cons.mpr ⟨rfl, ihN hks es hlt⟩
        · simp [hx] at hh

theorem bytesLt_prefixEnd {k h : Bytes} (hp : prefixEnd k = some h) (e : Bytes) :
    bytesLt e h = true ↔ (bytesLt k e = false ∨ k <+: e) :=
  (bytesLt_prefixEndS k).1 h (by rw [← prefixEnd_eq_S]; exact hp) e

theorem prefix_of_prefixEnd_none {k : Bytes} (hp : prefixEnd k = none) {e : Bytes} (hlt : bytesLt k e = true) : k <+: e :=
  (bytesLt_prefixEndS k).2 (by rw [← prefixEnd_eq_S]; exact hp) e hlt

end Orbiter
