/-
  C16 — Only returning Noble-native tokens are processed, under the coin ICS-20 credits.
-/
import Orbiter.Lemmas.Ctx
import Orbiter.Props.C12
namespace Orbiter.C16
open Orbiter

/-- The decision: a denomination is accepted exactly when it is the packet's own (source port, source
channel) prefix followed by a denomination without any further trace. -/
theorem c16_accept_iff (denom port chan native : String) :
    recoverNativeDenom denom port chan = .ok native ↔
      (denom.startsWith (denomPrefix port chan) = true ∧
       native = (denom.drop (denomPrefix port chan).length).toString ∧ (parseDenomTrace native).1 = "") := by
  unfold recoverNativeDenom
  simp only
  constructor
  · intro h
    split at h
    · cases h
    · rename_i h1
      split at h
      · cases h
      · rename_i h2
        simp only [Res.ok.injEq] at h
        subst h
        exact ⟨by simpa using h1, rfl, by simpa using h2⟩
  · rintro ⟨h1, rfl, h2⟩
    simp only [h1, Bool.not_true, Bool.false_eq_true, ↓reduceIte, h2, bne_self_eq_false]

/-- Tokens native to the sending chain (no such prefix) and tokens with a longer trace are refused: the
adapter returns an error, so the middleware answers with an error acknowledgement before anything moves. -/
theorem c16_refused (wr : Wiring) (pkt : Packet) (t : TransferAttrs) (p : Payload)
    (ha : adaptPacket wr pkt = .ok (.orbiter t p)) :
    ∃ d, decFTPD pkt.data = some d ∧ d.denom.startsWith (denomPrefix pkt.srcPort pkt.srcChan) = true ∧
      t.srcDenom = (d.denom.drop (denomPrefix pkt.srcPort pkt.srcChan).length).toString ∧ (parseDenomTrace t.srcDenom).1 = "" := by
  obtain ⟨_, _, _, _, d, hd, _, hr⟩ := C12.c12_source_from_packet wr pkt t p ha
  obtain ⟨h1, h2, h3⟩ := (c16_accept_iff _ _ _ _).mp hr
  exact ⟨d, hd, h1, h2, h3⟩

/-- The coin the orbiter acts on is the coin ICS-20 credits: when the adapter accepted the packet and the
wrapped ICS-20 application succeeded, the one movement ICS-20 made is the release of exactly
`t.srcAmount` of `t.srcDenom` from the channel's escrow account to the receiver, and the attributes start
with that same coin as destination coin. -/
theorem c16_same_coin (wr : Wiring) (c c' : Ctx) (pkt : Packet) (t : TransferAttrs) (p : Payload)
    (ha : adaptPacket wr pkt = .ok (.orbiter t p)) (hi : ics20Recv wr.cfg c pkt = .ok c') :
    c'.moves = c.moves ++ [.xfer (wr.cfg.escrow pkt.dstPort pkt.dstChan) wr.cfg.orbAddr t.srcDenom t.srcAmount.toNat] ∧
    t.dstDenom = t.srcDenom ∧ t.dstAmount = t.srcAmount ∧
    c.bank.send (wr.cfg.escrow pkt.dstPort pkt.dstChan) wr.cfg.orbAddr t.srcDenom t.srcAmount.toNat = some c'.bank := by
  obtain ⟨_, _, hdd, hda, d, hd, hamt, hr⟩ := C12.c12_source_from_packet wr pkt t p ha
  obtain ⟨h1, h2, h3⟩ := (c16_accept_iff _ _ _ _).mp hr
  suffices key : c'.moves = c.moves ++ [.xfer (wr.cfg.escrow pkt.dstPort pkt.dstChan) wr.cfg.orbAddr t.srcDenom t.srcAmount.toNat] ∧
      c.bank.send (wr.cfg.escrow pkt.dstPort pkt.dstChan) wr.cfg.orbAddr t.srcDenom t.srcAmount.toNat = some c'.bank from
    ⟨key.1, hdd, hda, key.2⟩
  -- the receiver is the orbiter account
  have hrecv : accAddressFromBech32 wr.cfg.hrp d.receiver = some wr.cfg.orbAddr := by
    unfold adaptPacket at ha
    simp only [hd] at ha
    cases hr : accAddressFromBech32 wr.cfg.hrp d.receiver with
    | none => simp [hr] at ha
    | some r =>
      simp only [hr] at ha
      split at ha
      · cases ha
      · rename_i hne
        have : r = wr.cfg.orbAddr := by simpa using hne
        rw [this]
  unfold ics20Recv at hi
  simp only [hd, hamt, Res.pure_eq, Res.bind_ok, Res.guard_bind_eq_ok, hrecv] at hi
  obtain ⟨_, _, _, _, _, hi⟩ := hi
  simp only [h1, ↓reduceIte] at hi
  obtain ⟨_, _, hi⟩ := Res.bind_eq_ok.mp hi
  simp only [Res.guard_bind_eq_ok] at hi
  obtain ⟨_, hi⟩ := hi
  obtain ⟨c1, hs, hi⟩ := Res.bind_eq_ok.mp hi
  have hden : ibcDenom wr.cfg (d.denom.drop (denomPrefix pkt.srcPort pkt.srcChan).length).toString = t.srcDenom := by
    unfold ibcDenom
    rw [← h2]
    simp [h3]
  rw [hden] at hs
  obtain ⟨b, hb, rfl⟩ := Ctx.send_ok hs
  split at hi
  · cases hi
  · simp only [Res.ok.injEq] at hi
    subst hi
    exact ⟨rfl, hb⟩

/-! ### non-vacuity
`String.startsWith` / `String.drop` do not reduce in the kernel, so the satisfiability of the hypotheses is
exhibited by the correspondence stream instead (evidence: accepted one-hop vouchers, refused native and
multi-hop denominations, on the implementation and on this model alike). -/

end Orbiter.C16
