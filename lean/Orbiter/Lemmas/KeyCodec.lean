import Orbiter.Lemmas.Inv
import Orbiter.Lemmas.Order
/-!
The string key codec of the pinned collections fork against the faithful one the model uses.  `StringKey.EncodeNonTerminal` loops
`for i := range key` over a Go string: it visits the *first* byte of every character and leaves the others of the (zeroed) buffer
untouched.  For identifiers that pass validation (after repair `8388b7e`: ASCII only) the two encodings coincide, which is what entitles
the model to the faithful one; for `nöble` they differ — the defect as it was.
-/
namespace Orbiter
open Orbiter

/-- one character as the fork's non-terminal encoder writes it: its first byte, then zeros -/
def sdkEncChar (c : Char) : Bytes :=
  match String.utf8EncodeChar c with
  | [] => []
  | b :: rest => b :: rest.map (fun _ => 0)

/-- `StringKey.EncodeNonTerminal` of the pinned collections fork -/
def sdkEncStrNT (s : String) : Bytes := s.toList.flatMap sdkEncChar ++ [0]

theorem sdkEncChar_ascii (c : Char) (h : c.toNat < 128) : sdkEncChar c = String.utf8EncodeChar c := by
  have hl : (String.utf8EncodeChar c).length = 1 := by
    rw [String.length_utf8EncodeChar]
    unfold Char.utf8Size
    have : c.val.toNat < 128 := h
    have hle : c.val ≤ 127 := by rw [UInt32.le_iff_toNat_le]; simp; omega
    simp [hle]
  unfold sdkEncChar
  cases he : String.utf8EncodeChar c with
  | nil => rfl
  | cons b rest =>
    rw [he] at hl
    have : rest = [] := by
      cases rest with
      | nil => rfl
      | cons _ _ => simp at hl
    subst this
    rfl

theorem sdkEncStrNT_eq_of_ascii (s : String) (h : allAscii s = true) : sdkEncStrNT s = encStrNT s := by
  unfold sdkEncStrNT encStrNT
  rw [strBytes_eq]
  congr 1
  unfold allAscii at h
  rw [List.all_eq_true] at h
  generalize s.toList = l at h
  induction l with
  | nil => rfl
  | cons c cs ih =>
    simp only [List.flatMap_cons]
    rw [sdkEncChar_ascii c (by simpa using h c List.mem_cons_self), ih (fun x hx => h x (List.mem_cons_of_mem _ hx))]

theorem crossChainValid_ascii {p : Int} {cp : String} (h : crossChainValid p cp = true) : allAscii cp = true := by
  simp only [crossChainValid, validateCounterpartyID, Bool.and_eq_true, Bool.not_eq_true'] at h
  exact h.2.1.1.2

theorem natDigits_ascii (n : Nat) : ∀ c ∈ natDigits n, c.toNat < 128 := by
  intro ch hmem
  have hd := natDigits_all n
  rw [List.all_eq_true] at hd
  have hdg := hd ch hmem
  simp only [isDigit, Bool.and_eq_true, decide_eq_true_eq] at hdg
  have h9 : ch.val ≤ ('9' : Char).val := hdg.2
  have h9' := UInt32.le_iff_toNat_le.mp h9
  have e9 : ('9' : Char).val.toNat = 57 := by decide
  show ch.val.toNat < 128
  omega

/-- The printed form of a destination (`"4:noble"`), the other non-terminal string of the statistics keys, is ASCII when the
counterparty is. -/
theorem ccidString_ascii {p : Int} {cp : String} (h : allAscii cp = true) : allAscii (ccidString p cp) = true := by
  unfold allAscii at h ⊢
  unfold ccidString natToDec
  rw [String.toList_append, String.toList_append, String.toList_ofList, C20.separator_is_colon]
  simp only [List.all_append, Bool.and_eq_true]
  refine ⟨⟨?_, by decide⟩, h⟩
  rw [List.all_eq_true]
  intro c hc
  simpa using natDigits_ascii _ c hc

/-- the statistics keys as the fork's codec writes them -/
def AmtKey.sdkEnc (k : AmtKey) : Bytes := encInt32 k.srcProto ++ sdkEncStrNT k.srcCp ++ sdkEncStrNT k.dstId ++ strBytes k.denom
def CntKey.sdkEnc (k : CntKey) : Bytes := encInt32 k.srcProto ++ sdkEncStrNT k.srcCp ++ encInt32 k.dstProto ++ strBytes k.dstCp

/-- Under the store invariant every statistics key is written by the fork's codec exactly as the model encodes it. -/
theorem OrbState.Inv.keys_faithful {o : OrbState} (hi : o.Inv) :
    (∀ e ∈ o.amounts, e.1.sdkEnc = e.1.enc) ∧ (∀ e ∈ o.counts, e.1.sdkEnc = e.1.enc) := by
  constructor
  · intro e he
    obtain ⟨hs, ⟨p, cp, hv, hd⟩, _⟩ := hi.amt_valid e he
    unfold AmtKey.sdkEnc AmtKey.enc
    rw [sdkEncStrNT_eq_of_ascii _ (crossChainValid_ascii hs), hd, sdkEncStrNT_eq_of_ascii _ (ccidString_ascii (crossChainValid_ascii hv))]
  · intro e he
    obtain ⟨hs, _, _⟩ := hi.cnt_valid e he
    unfold CntKey.sdkEnc CntKey.enc
    rw [sdkEncStrNT_eq_of_ascii _ (crossChainValid_ascii hs)]

/-- The defect as it was (before `8388b7e` such an identifier passed validation): the two encodings differ on `nöble`. -/
theorem sdkEnc_differs_on_non_ascii : sdkEncStrNT "nöble" ≠ encStrNT "nöble" := by
  unfold sdkEncStrNT encStrNT
  rw [strBytes_eq]
  decide

end Orbiter
