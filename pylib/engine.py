"""Correspondence engine: run the same operation lines through the implementation driver and the
model driver and compare their canonical outputs field by field."""
import os
import time

from proto import IMPL, MODEL, kv, run_batch

# fields the model also prints, per operation kind (everything else the implementation prints is
# implementation-only: hashes, texts)
MODEL_FIELDS = {
    "recv": ["ack", "src", "bal", "sup", "req", "ev", "mv", "st"],
    "recvh": ["ack", "src", "bal", "sup", "hreq", "calls", "ev", "st"],
    "msg": ["res", "ev", "st", "ecs"],
    "msgdry": ["res", "st"],
    "msgh": ["res", "hreq", "st"],
    "acth": ["res", "dst", "bal"],
    "dispatchh": ["res", "hreq", "bal", "st"],
    "query": ["res", "out", "next", "total"],
    "export": ["st"],
    "reimport": ["valid", "init", "same", "st"],
    "genvalidate": ["res"],
    "geninit": ["res", "st"],
    "genload": ["res", "st"],
    "withoutmw": [],
    "withoutmwc": [],
    "pure": ["_"],
    "deposit": ["_"],
    "env": ["_"],
    "fault": ["_"],
    "swapctl": ["_"],
    "setup": ["_"],
    "drybegin": ["_"],
    "escrowfund": ["_"],
    "dryend": ["_"],
    "cmpstacks": ["same"],
    "cb": ["same"],
}


class Step:
    __slots__ = ("i", "line", "op", "impl", "model", "impl_raw", "model_raw", "diff")

    def __init__(self, i, line, impl_raw, model_raw):
        self.i = i
        self.line = line
        self.op = line.split(" ", 1)[0]
        self.impl_raw = impl_raw
        self.model_raw = model_raw
        if self.op in ("pure", "deposit", "fault", "swapctl", "setup", "drybegin", "dryend", "escrowfund"):
            # single-token results (may contain '='): compared as a whole; the model may append " #<guard tag>" for the evidence
            tag = None
            if " #" in model_raw:
                model_raw, tag = model_raw.split(" #", 1)
                self.model_raw = model_raw
            self.impl = {"_": impl_raw}
            self.model = {"_": model_raw}
            if tag:
                self.model["tag"] = tag
        else:
            self.impl = kv(impl_raw)
            self.model = kv(model_raw)
        self.diff = []


def normalise(op, k, impl_v, model_v, step):
    """Canonicalisations applied before diffing (documented in DESIGN.md §4.2)."""
    if op == "pure" and k == "_":
        # implementation prints the decoded payload after err:v for diagnostics
        if impl_v.startswith("err:v:"):
            impl_v = "err:v"
    if op == "recv" and k == "req" and impl_v != "-" and model_v != "-":
        # warp event: the amount is printed as a coins string by the real module; compare the number only
        def canon(p):
            f = p.split(":")
            if f[0] == "hyp":
                return ":".join(f[:5])
            return p
        impl_parts = []
        for p in impl_v.split(";"):
            f = p.split(":")
            if f[0] == "hyp" and len(f) >= 6:
                import binascii
                coins = binascii.unhexlify(f[4]).decode() if f[4] != "-" else ""
                num = "".join(ch for ch in coins if ch.isdigit()) if coins else "0"
                # leading digits only (coins string is "<amount><denom>")
                n = ""
                for ch in coins:
                    if ch.isdigit():
                        n += ch
                    else:
                        break
                impl_parts.append(":".join([f[0], f[1], f[2], f[3], n or "0"]))
            else:
                impl_parts.append(p)
        impl_v = ";".join(impl_parts)
    if op == "acth" and k == "bal" and (step.impl.get("res") != "ok" or step.model.get("res") != "ok"):
        return "-", "-"
    if op in ("recv", "recvh") and k in ("req", "hreq", "calls", "ev"):
        # recorded even when the operation fails on the implementation side; the model discards them
        if step.impl.get("ack") != "ok" or step.model.get("ack") != "ok":
            return "-", "-"
    return impl_v, model_v


def compare(step, fields=None):
    op = step.op
    fs = fields if fields is not None else MODEL_FIELDS.get(op, ["_"])
    diffs = []
    for k in fs:
        a = step.impl.get(k)
        b = step.model.get(k)
        if a is None and b is None:
            continue
        if a is None or b is None:
            diffs.append(k)
            continue
        a2, b2 = normalise(op, k, a, b, step)
        if a2 != b2:
            diffs.append(k)
    step.diff = diffs
    return diffs


def run_both(lines, model_only_skip=()):
    """Returns list of Step. Both drivers are run in batch mode on identical lines."""
    t0 = time.time()
    io, irc, ierr = run_batch([IMPL], lines)
    mo, mrc, merr = run_batch([MODEL], lines)
    steps = []
    n = len(lines)
    if len(io) != n or len(mo) != n:
        raise RuntimeError("driver output length mismatch: lines=%d impl=%d (rc=%s) model=%d (rc=%s)\n%s\n%s" % (
            n, len(io), irc, len(mo), mrc, ierr[-2000:], merr[-2000:]))
    for i, (l, a, b) in enumerate(zip(lines, io, mo)):
        s = Step(i, l, a, b)
        compare(s)
        steps.append(s)
    return steps, time.time() - t0


def run_impl_only(lines):
    io, irc, ierr = run_batch([IMPL], lines)
    if len(io) != len(lines):
        raise RuntimeError("impl output length mismatch rc=%s %s" % (irc, ierr[-2000:]))
    return [kv(x) for x in io], io
