/-
  C09 — A paused action is never executed; payloads without it are unaffected.
  The abstract state and the message refinement are those of C08 (`C08.abs`, `C08.c08_msg_refines`,
  field `actions`); here: the executor consults exactly that set, a refused transfer leaves no effect, and
  payloads without a paused action behave as if nothing were paused.
-/
import Orbiter.Props.C08
namespace Orbiter.C09
open Orbiter Orbiter.C08

/-- The executor refuses a paused action whatever the controller, the context and the faults — the
controller is never reached (the refusal is decided before the routing). -/
theorem c09_enforced (wr : Wiring) (φ : Faults) (o : OrbState) (c : Ctx) (t : TransferAttrs) (a : Action)
    (hp : (abs o).actions a.id = true) :
    executorHandle wr φ o c t a = .err "executor:action-paused" ∨
    ∃ e, executorHandle wr φ o c t a = .err ("executor:validate:" ++ e) := by
  unfold executorHandle
  have hm : a.id ∈ o.pausedActions := by simpa [abs] using hp
  cases hv : (a.validate >>= fun _ => t.validate) with
  | err e => right; exact ⟨e, by simp [Res.mapErr]⟩
  | panic e =>
    -- validation is total: it never panics
    exfalso
    cases h1 : a.validate with
    | ok u => 
      simp only [h1, Res.bind_ok] at hv
      unfold TransferAttrs.validate at hv
      repeat (first | split at hv | cases hv)
    | err e => simp [h1] at hv
    | panic e =>
      unfold Action.validate at h1
      repeat (first | split at h1 | cases h1)
  | ok u => left; simp [Res.mapErr, hm]

/-- In particular the result is never a success and never depends on the registered controllers. -/
theorem c09_never_ok (wr : Wiring) (φ : Faults) (o : OrbState) (c : Ctx) (t : TransferAttrs) (a : Action)
    (hp : (abs o).actions a.id = true) (r : Ctx × TransferAttrs) : executorHandle wr φ o c t a ≠ .ok r := by
  intro h
  unfold executorHandle at h
  have hm : a.id ∈ o.pausedActions := by simpa [abs] using hp
  cases hv : (a.validate >>= fun _ => t.validate) with
  | err e => simp [hv, Res.mapErr] at h
  | panic e => simp [hv, Res.mapErr] at h
  | ok u => simp [hv, Res.mapErr, hm] at h

/-- A payload containing a paused action — at any position — is never dispatched. -/
theorem c09_actions_refused (wr : Wiring) (φ : Faults) (o : OrbState) (acts : List Action) (a : Action)
    (ha : a ∈ acts) (hp : (abs o).actions a.id = true) (c : Ctx) (t : TransferAttrs) (r : Ctx × TransferAttrs) :
    dispatchActions wr φ o acts c t ≠ .ok r := by
  induction acts generalizing c t with
  | nil => cases ha
  | cons x rest ih =>
    intro h
    simp only [dispatchActions] at h
    cases hx : executorHandle wr φ o c t x with
    | err e => simp [hx] at h
    | panic e => simp [hx] at h
    | ok r1 =>
      obtain ⟨c1, t1⟩ := r1
      simp only [hx, Res.bind_ok] at h
      rcases List.mem_cons.mp ha with rfl | hm
      · exact c09_never_ok wr φ o c t a hp _ hx
      · exact ih hm c1 t1 h

/-- Packet level: the whole transfer is refused with an error acknowledgement and nothing takes effect —
no fee of an earlier action, no credit, no statistics: the committed world is the one before. -/
theorem c09_paused_refused_no_effect (wr : Wiring) (φ : Faults) (w : World) (pkt : Packet) (t : TransferAttrs) (p : Payload)
    (a : Action) (hpk : adaptPacket wr pkt = .ok (.orbiter t p)) (ha : a ∈ p.preActions)
    (hp : (abs w.orb).actions a.id = true) :
    (ibcRecv wr φ w pkt).ack.isSuccess = false ∧ (ibcRecv wr φ w pkt).world = w := by
  have hns : (ibcRecv wr φ w pkt).ack.isSuccess = false := by
    cases hs : (ibcRecv wr φ w pkt).ack.isSuccess with
    | false => rfl
    | true =>
      exfalso
      obtain ⟨c1, c2, c3, t3, _, _, hd, _⟩ := ibcRecv_success_dispatch hs hpk
      obtain ⟨c4, f, _, hda, _⟩ := dispatchPayload_ok hd
      exact c09_actions_refused wr φ w.orb p.preActions a ha hp c2 t _ hda
  exact ⟨hns, ibcRecv_error_commits_nothing wr φ w pkt hns⟩

/-- Payloads that contain no paused action are executed exactly as if nothing were paused. -/
theorem c09_others_unaffected (wr : Wiring) (φ : Faults) (o : OrbState) (acts : List Action)
    (h : ∀ a ∈ acts, (abs o).actions a.id = false) (c : Ctx) (t : TransferAttrs) :
    dispatchActions wr φ o acts c t = dispatchActions wr φ { o with pausedActions := [] } acts c t := by
  induction acts generalizing c t with
  | nil => rfl
  | cons x rest ih =>
    simp only [dispatchActions]
    have hx : x.id ∉ o.pausedActions := by simpa [abs] using h x List.mem_cons_self
    have : executorHandle wr φ o c t x = executorHandle wr φ { o with pausedActions := [] } c t x := by
      unfold executorHandle
      simp [hx]
    rw [this]
    cases executorHandle wr φ { o with pausedActions := [] } c t x with
    | err e => rfl
    | panic e => rfl
    | ok r =>
      obtain ⟨c1, t1⟩ := r
      simp only [Res.bind_ok]
      exact ih (fun a ha => h a (List.mem_cons_of_mem _ ha)) c1 t1

/-- A redundant pause or unpause is an error (and, C10 `c10_failure_changes_nothing`, changes nothing). -/
theorem c09_redundant_pause_fails (o : OrbState) (a : Int) (h : (abs o).actions a = true) :
    ∃ e, setPausedAction o a = .err e := by
  unfold setPausedAction
  have : a ∈ o.pausedActions := by simpa [abs] using h
  split
  · exact ⟨_, rfl⟩
  · simp [this]

theorem c09_redundant_unpause_fails (o : OrbState) (a : Int) (h : (abs o).actions a = false) :
    ∃ e, setUnpausedAction o a = .err e := by
  unfold setUnpausedAction
  have : a ∉ o.pausedActions := by simpa [abs] using h
  split
  · exact ⟨_, rfl⟩
  · simp [this]

/-- Transfers never change the paused set. -/
theorem c09_recv_preserves (wr : Wiring) (φ : Faults) (w : World) (pkt : Packet) :
    (abs (ibcRecv wr φ w pkt).orb).actions = (abs w.orb).actions := by
  rw [c08_recv_preserves]

/-- The queries report exactly the paused set. -/
theorem c09_query_is_action_paused (o : OrbState) (name : String) (a : Int) (h : actionIdFromString name = some a) :
    queryStep o (.isActionPaused name) = .ok (.bool ((abs o).actions a)) := by
  simp [queryStep, h, abs]

theorem c09_query_paused_actions (o : OrbState) : queryStep o .pausedActions = .ok (.ints o.pausedActions) := rfl

/-! ### non-vacuity -/
example : ∃ o, WF o ∧ (abs o).actions 1 = true ∧ (abs o).actions 2 = false :=
  ⟨{ pausedActions := [1] }, ⟨by decide, by decide, by decide⟩, by decide, by decide⟩

end Orbiter.C09
