/-
  Lemmas about the decimal text primitives: `natDigits` / `decVal` are mutually inverse on canonical
  digit strings.  Used by C20 (identifiers) and C13 (index derived from the textual id).
-/
import Orbiter.Prims
namespace Orbiter

theorem digitVal_digitChar (n : Nat) (h : n < 10) : digitVal (digitChar n) = n := by
  have : ∀ k : Fin 10, digitVal (digitChar k.val) = k.val := by decide
  exact this ⟨n, h⟩

theorem isDigit_digitChar (n : Nat) (h : n < 10) : isDigit (digitChar n) = true := by
  have : ∀ k : Fin 10, isDigit (digitChar k.val) = true := by decide
  exact this ⟨n, h⟩

theorem utf8Size_digitChar (n : Nat) (h : n < 10) : (digitChar n).utf8Size = 1 := by
  have : ∀ k : Fin 10, (digitChar k.val).utf8Size = 1 := by decide
  exact this ⟨n, h⟩

theorem digitChar_ne_colon (n : Nat) : digitChar n ≠ ':' := by
  unfold digitChar; split <;> decide

/-- A digit character is one of the ten literals. -/
theorem isDigit_cases (c : Char) (h : isDigit c = true) :
    c = '0' ∨ c = '1' ∨ c = '2' ∨ c = '3' ∨ c = '4' ∨ c = '5' ∨ c = '6' ∨ c = '7' ∨ c = '8' ∨ c = '9' := by
  simp only [isDigit, Bool.and_eq_true, decide_eq_true_eq] at h
  obtain ⟨h1, h2⟩ := h
  have h1' : (48 : Nat) ≤ c.toNat := by
    exact UInt32.le_iff_toNat_le.mp (Char.le_def.mp h1)
  have h2' : c.toNat ≤ 57 := by
    exact UInt32.le_iff_toNat_le.mp (Char.le_def.mp h2)
  have key : ∀ k : Nat, c.toNat = k → k < 0xd800 → c = Char.ofNat k := by
    intro k hk _
    rw [← hk, Char.ofNat_toNat]
  have : c.toNat = 48 ∨ c.toNat = 49 ∨ c.toNat = 50 ∨ c.toNat = 51 ∨ c.toNat = 52 ∨ c.toNat = 53 ∨ c.toNat = 54
      ∨ c.toNat = 55 ∨ c.toNat = 56 ∨ c.toNat = 57 := by omega
  rcases this with h | h | h | h | h | h | h | h | h | h
  · left; exact key 48 h (by decide)
  · right; left; exact key 49 h (by decide)
  · right; right; left; exact key 50 h (by decide)
  · right; right; right; left; exact key 51 h (by decide)
  · right; right; right; right; left; exact key 52 h (by decide)
  · right; right; right; right; right; left; exact key 53 h (by decide)
  · right; right; right; right; right; right; left; exact key 54 h (by decide)
  · right; right; right; right; right; right; right; left; exact key 55 h (by decide)
  · right; right; right; right; right; right; right; right; left; exact key 56 h (by decide)
  · right; right; right; right; right; right; right; right; right; exact key 57 h (by decide)

theorem digitChar_digitVal (c : Char) (h : isDigit c = true) : digitChar (digitVal c) = c ∧ digitVal c < 10 := by
  rcases isDigit_cases c h with h | h | h | h | h | h | h | h | h | h <;> subst h <;> decide

/-! ### decVal -/

theorem decVal_foldl (acc : Nat) (cs : List Char) :
    cs.foldl (fun a c => a * 10 + digitVal c) acc = acc * 10 ^ cs.length + decVal cs := by
  induction cs generalizing acc with
  | nil => simp [decVal]
  | cons c cs ih =>
    simp only [List.foldl_cons, List.length_cons, decVal]
    rw [ih, ih (0 * 10 + digitVal c)]
    simp only [Nat.zero_mul, Nat.zero_add, Nat.pow_succ]
    rw [Nat.add_mul, Nat.mul_assoc, Nat.mul_comm 10, Nat.add_assoc]

theorem decVal_append (a b : List Char) : decVal (a ++ b) = decVal a * 10 ^ b.length + decVal b := by
  unfold decVal
  rw [List.foldl_append]
  exact decVal_foldl _ _

theorem decVal_snoc (a : List Char) (c : Char) : decVal (a ++ [c]) = decVal a * 10 + digitVal c := by
  rw [decVal_append]; simp [decVal]

end Orbiter

namespace Orbiter

theorem decVal_cons (c : Char) (cs : List Char) : decVal (c :: cs) = digitVal c * 10 ^ cs.length + decVal cs := by
  have := decVal_append [c] cs
  simpa [decVal] using this

theorem digitVal_lt (c : Char) (h : isDigit c = true) : digitVal c < 10 := (digitChar_digitVal c h).2

theorem decVal_lt (ds : List Char) (h : ds.all isDigit = true) : decVal ds < 10 ^ ds.length := by
  induction ds with
  | nil => simp [decVal]
  | cons c cs ih =>
    simp only [List.all_cons, Bool.and_eq_true] at h
    have h1 := digitVal_lt c h.1
    have h2 := ih h.2
    rw [decVal_cons, List.length_cons, Nat.pow_succ]
    have : digitVal c * 10 ^ cs.length ≤ 9 * 10 ^ cs.length := Nat.mul_le_mul_right _ (by omega)
    omega

/-- Equal-length digit strings with the same value are equal. -/
theorem decVal_inj_of_length (a b : List Char) (ha : a.all isDigit = true) (hb : b.all isDigit = true)
    (hl : a.length = b.length) (hv : decVal a = decVal b) : a = b := by
  induction a generalizing b with
  | nil => cases b with
    | nil => rfl
    | cons _ _ => simp at hl
  | cons c cs ih =>
    cases b with
    | nil => simp at hl
    | cons d ds =>
      simp only [List.all_cons, Bool.and_eq_true] at ha hb
      simp only [List.length_cons, Nat.add_right_cancel_iff] at hl
      rw [decVal_cons, decVal_cons, hl] at hv
      have hc := decVal_lt cs ha.2
      have hd := decVal_lt ds hb.2
      rw [hl] at hc
      have hpos : 0 < 10 ^ ds.length := Nat.pow_pos (by decide)
      -- Euclidean uniqueness
      have e1 : (digitVal c * 10 ^ ds.length + decVal cs) / 10 ^ ds.length = digitVal c := by
        rw [Nat.mul_comm, Nat.mul_add_div hpos, Nat.div_eq_of_lt hc, Nat.add_zero]
      have e2 : (digitVal d * 10 ^ ds.length + decVal ds) / 10 ^ ds.length = digitVal d := by
        rw [Nat.mul_comm, Nat.mul_add_div hpos, Nat.div_eq_of_lt hd, Nat.add_zero]
      have hcd : digitVal c = digitVal d := by rw [← e1, ← e2, hv]
      have hrest : decVal cs = decVal ds := by rw [hcd] at hv; omega
      have hchar : c = d := by
        rw [← (digitChar_digitVal c ha.1).1, ← (digitChar_digitVal d hb.1).1, hcd]
      rw [hchar, ih ds ha.2 hb.2 hl hrest]

/-- Canonical decimal: non-empty, digits only, no leading zero except for "0" itself. -/
def canonicalDigits (ds : List Char) : Bool :=
  allDigits ds && (ds.length == 1 || ds.head? != some '0')

theorem digitVal_pos_of_ne_zero (c : Char) (h : isDigit c = true) (hz : c ≠ '0') : 1 ≤ digitVal c := by
  rcases isDigit_cases c h with h | h | h | h | h | h | h | h | h | h <;> subst h <;> first | (exact absurd rfl hz) | decide

/-- Value bounds of a canonical string of length ≥ 2. -/
theorem decVal_ge_of_canonical (ds : List Char) (h : canonicalDigits ds = true) (hl : 2 ≤ ds.length) :
    10 ^ (ds.length - 1) ≤ decVal ds := by
  cases ds with
  | nil => simp at hl
  | cons c cs =>
    simp only [canonicalDigits, allDigits, List.isEmpty_cons, Bool.not_false, Bool.true_and, List.all_cons,
      List.length_cons, List.head?_cons, Bool.and_eq_true, Bool.or_eq_true, beq_iff_eq, bne_iff_ne, ne_eq] at h
    obtain ⟨⟨hc, _⟩, h2⟩ := h
    have hne : c ≠ '0' := by
      rcases h2 with h2 | h2
      · simp only [List.length_cons] at hl; omega
      · intro e; exact h2 (by rw [e])
    have := digitVal_pos_of_ne_zero c hc hne
    rw [decVal_cons]
    simp only [List.length_cons, Nat.add_sub_cancel]
    have : 1 * 10 ^ cs.length ≤ digitVal c * 10 ^ cs.length := Nat.mul_le_mul_right _ this
    omega

theorem pow10_mono {a b : Nat} (h : a ≤ b) : 10 ^ a ≤ 10 ^ b := Nat.pow_le_pow_right (by decide) h

/-- Canonical strings with the same value are equal: no two canonical spellings of one number. -/
theorem canonical_inj (a b : List Char) (ha : canonicalDigits a = true) (hb : canonicalDigits b = true)
    (hv : decVal a = decVal b) : a = b := by
  have haD : a.all isDigit = true := by
    simp only [canonicalDigits, allDigits, Bool.and_eq_true] at ha; exact ha.1.2
  have hbD : b.all isDigit = true := by
    simp only [canonicalDigits, allDigits, Bool.and_eq_true] at hb; exact hb.1.2
  have haN : a ≠ [] := by
    intro e; subst e; simp [canonicalDigits, allDigits] at ha
  have hbN : b ≠ [] := by
    intro e; subst e; simp [canonicalDigits, allDigits] at hb
  have la : 1 ≤ a.length := by cases a with | nil => exact absurd rfl haN | cons _ _ => simp
  have lb : 1 ≤ b.length := by cases b with | nil => exact absurd rfl hbN | cons _ _ => simp
  -- lengths agree
  have hlen : a.length = b.length := by
    by_cases h1 : a.length ≤ 1 <;> by_cases h2 : b.length ≤ 1
    · omega
    · -- a has one digit, b at least two: decVal a < 10 ≤ decVal b
      have ua := decVal_lt a haD
      have lbv := decVal_ge_of_canonical b hb (by omega)
      have : a.length = 1 := by omega
      rw [this] at ua
      have : 10 ^ 1 ≤ 10 ^ (b.length - 1) := pow10_mono (by omega)
      omega
    · have ub := decVal_lt b hbD
      have lav := decVal_ge_of_canonical a ha (by omega)
      have : b.length = 1 := by omega
      rw [this] at ub
      have : 10 ^ 1 ≤ 10 ^ (a.length - 1) := pow10_mono (by omega)
      omega
    · have ua := decVal_lt a haD
      have ub := decVal_lt b hbD
      have lav := decVal_ge_of_canonical a ha (by omega)
      have lbv := decVal_ge_of_canonical b hb (by omega)
      rcases Nat.lt_trichotomy a.length b.length with h | h | h
      · have : 10 ^ a.length ≤ 10 ^ (b.length - 1) := pow10_mono (by omega)
        omega
      · exact h
      · have : 10 ^ b.length ≤ 10 ^ (a.length - 1) := pow10_mono (by omega)
        omega
  exact decVal_inj_of_length a b haD hbD hlen hv

end Orbiter

namespace Orbiter

/-- `natDigitsAux` prepends the digits of `n` to `acc`. -/
theorem natDigitsAux_val (fuel n : Nat) (acc : List Char) (h : n < fuel) :
    decVal (natDigitsAux fuel n acc) = n * 10 ^ acc.length + decVal acc := by
  induction fuel generalizing n acc with
  | zero => omega
  | succ fuel ih =>
    unfold natDigitsAux
    split
    · rename_i hlt
      rw [decVal_cons, digitVal_digitChar n hlt]
    · rename_i hge
      have hq : n / 10 < fuel := by omega
      rw [ih (n / 10) _ hq, decVal_cons, digitVal_digitChar (n % 10) (Nat.mod_lt _ (by decide))]
      simp only [List.length_cons, Nat.pow_succ]
      have hn := Nat.div_add_mod n 10
      generalize 10 ^ acc.length = X
      have e : n * X = 10 * (n / 10 * X) + n % 10 * X := by
        conv => lhs; rw [← hn]
        rw [Nat.add_mul, Nat.mul_assoc]
      rw [e, ← Nat.mul_assoc, Nat.mul_comm (n / 10 * X) 10]
      omega

theorem natDigitsAux_all (fuel n : Nat) (acc : List Char) (hacc : acc.all isDigit = true) :
    (natDigitsAux fuel n acc).all isDigit = true := by
  induction fuel generalizing n acc with
  | zero => simpa [natDigitsAux] using hacc
  | succ fuel ih =>
    unfold natDigitsAux
    split
    · rename_i hlt
      simp [List.all_cons, isDigit_digitChar n hlt, hacc]
    · apply ih
      simp [List.all_cons, isDigit_digitChar (n % 10) (Nat.mod_lt _ (by decide)), hacc]

theorem natDigitsAux_ne_nil (fuel n : Nat) (acc : List Char) (h : n < fuel) : natDigitsAux fuel n acc ≠ [] := by
  induction fuel generalizing n acc with
  | zero => omega
  | succ fuel ih =>
    unfold natDigitsAux
    split
    · simp
    · exact ih _ _ (by omega)

/-- The leading character produced for a positive number is not '0'. -/
theorem natDigitsAux_head (fuel n : Nat) (acc : List Char) (h : n < fuel) (hpos : 0 < n) :
    (natDigitsAux fuel n acc).head? ≠ some '0' := by
  induction fuel generalizing n acc with
  | zero => omega
  | succ fuel ih =>
    unfold natDigitsAux
    split
    · rename_i hlt
      simp only [List.head?_cons, ne_eq, Option.some.injEq]
      intro e
      have := digitVal_digitChar n hlt
      rw [e] at this
      have z : digitVal '0' = 0 := by decide
      omega
    · exact ih _ _ (by omega) (by omega)

theorem natDigits_val (n : Nat) : decVal (natDigits n) = n := by
  unfold natDigits
  rw [natDigitsAux_val _ _ _ (by omega)]
  simp [decVal]

theorem natDigits_all (n : Nat) : (natDigits n).all isDigit = true :=
  natDigitsAux_all _ _ _ (by simp)

theorem natDigits_zero : natDigits 0 = ['0'] := by decide

theorem natDigits_canonical (n : Nat) : canonicalDigits (natDigits n) = true := by
  have hne : natDigits n ≠ [] := natDigitsAux_ne_nil _ _ _ (by omega)
  simp only [canonicalDigits, allDigits, Bool.and_eq_true, Bool.or_eq_true, beq_iff_eq, bne_iff_ne, ne_eq]
  refine ⟨⟨?_, natDigits_all n⟩, ?_⟩
  · cases h : natDigits n with
    | nil => exact absurd h hne
    | cons _ _ => rfl
  · by_cases hz : n = 0
    · left; subst hz; rw [natDigits_zero]; rfl
    · right; exact natDigitsAux_head _ _ _ (by omega) (by omega)

/-- Canonical strings are exactly the decimal forms of their values. -/
theorem natDigits_decVal (ds : List Char) (h : canonicalDigits ds = true) : natDigits (decVal ds) = ds :=
  canonical_inj _ _ (natDigits_canonical _) h (natDigits_val _)

theorem natDigits_inj (a b : Nat) (h : natDigits a = natDigits b) : a = b := by
  rw [← natDigits_val a, ← natDigits_val b, h]

theorem natDigits_no_colon (n : Nat) : ':' ∉ natDigits n := by
  intro hmem
  have := natDigits_all n
  rw [List.all_eq_true] at this
  have := this _ hmem
  exact absurd this (by decide)

/-- Length bound: numbers below `10^k` have at most `k` digits (k ≥ 1). -/
theorem natDigits_length_le (n k : Nat) (hk : 1 ≤ k) (h : n < 10 ^ k) : (natDigits n).length ≤ k := by
  by_cases hl : (natDigits n).length ≤ 1
  · omega
  · have := decVal_ge_of_canonical _ (natDigits_canonical n) (by omega)
    rw [natDigits_val] at this
    by_cases hgt : (natDigits n).length ≤ k
    · exact hgt
    · have : 10 ^ k ≤ 10 ^ ((natDigits n).length - 1) := pow10_mono (by omega)
      omega

end Orbiter
