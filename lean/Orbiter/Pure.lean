/-
  Orbiter.Pure — the pure kernel: fee arithmetic and validation (controller/action/fee.go,
  types/controller/action/fee.go), attribute validation (types/controller/forwarding/*.go), payload
  validation (types/core/orbiter.go), denomination recovery (controller/adapter/utils.go and the
  ibc-go helpers shared with ICS-20), coin validation, and the memo parser
  (controller/adapter/generic_parsers.go).
-/
import Orbiter.Jsonpb
import Orbiter.Ids
namespace Orbiter

/-! ### coins -/

def isAlpha (c : Char) : Bool := ('a' ≤ c && c ≤ 'z') || ('A' ≤ c && c ≤ 'Z')

/-- `sdk.ValidateDenom`: `[a-zA-Z][a-zA-Z0-9/:._-]{2,127}`. -/
def validDenom (s : String) : Bool :=
  match s.toList with
  | [] => false
  | c :: rest =>
    isAlpha c && 2 ≤ rest.length && rest.length ≤ 127 &&
      rest.all fun x => isAlpha x || isDigit x || x == '/' || x == ':' || x == '.' || x == '_' || x == '-'

/-- `sdk.Coin.Validate` for a non-nil amount. -/
def coinValid (denom : String) (amt : Int) : Bool := validDenom denom && amt ≥ 0

/-- `sdk.NewCoin`: panics on an invalid denom or a negative amount. -/
def newCoin (denom : String) (amt : Int) (site : String) : Res Unit :=
  if coinValid denom amt then .ok () else .panic site

/-! ### fees -/

/-- `ComputeFeeAmount`: `SafeMul`, then truncated division by the normaliser. -/
def computeFeeAmount (amount : Int) (bps : Nat) : Res Int :=
  let fee := amount * (bps : Int)
  if overflows256 fee then .err "fee:mul-overflow"
  else if fee ≤ 0 then .ok 0
  else .ok (fee / (Gen.bpsNormalizer : Int))

/-- The fee-type part of `FeeInfo.Validate`. -/
def FeeInfo.checkType (f : FeeInfo) : Res Unit :=
  match f.feeType with
  | .unset => .err "fee:nil-type"
  | .amount v =>
    match newIntFromString v with
    | none => .err "fee:amount-nan"
    | some i => if i ≤ 0 then .err "fee:amount-not-positive" else .ok ()
  | .bps v => if v == 0 || v > Gen.bpsNormalizer then .err "fee:bps-range" else .ok ()

/-- The recipient part of `FeeInfo.Validate`. -/
def FeeInfo.checkRecipient (hrp : String) (f : FeeInfo) : Res Unit :=
  match accAddressFromBech32 hrp f.recipient with
  | some _ => .ok ()
  | none => .err "fee:recipient"

/-- `FeeInfo.Validate`. -/
def FeeInfo.validate (hrp : String) (f : FeeInfo) : Res Unit :=
  f.checkType >>= fun _ => f.checkRecipient hrp

/-- `FeeAttributes.Validate`. -/
def validateFeeAttrs (hrp : String) (infos : List FeeInfo) : Res Unit := do
  if infos.length > Gen.maxFeeRecipients then (.err "fee:too-many" : Res Unit) else pure ()
  Res.allM (FeeInfo.validate hrp) infos

/-- One entry of `ComputeFeesToDistribute`: the amount this entry credits (possibly 0). The two panic
sites are the method calls on a nil `math.Int` that unvalidated input would reach. -/
def feeEntryAmount (amount : Int) (f : FeeInfo) : Res Int :=
  match f.feeType with
  | .bps v => computeFeeAmount amount v
  | .amount s => match newIntFromString s with
    | some i => .ok i
    | none => .panic "ComputeFeesToDistribute:nil-int"
  | .unset => .panic "ComputeFeesToDistribute:nil-int"

structure FeesToDistribute where
  values : List (Bytes × Int)    -- recipient bytes, amount; only positive entries, payload order
  total : Int
  deriving Repr, DecidableEq, Inhabited

/-- `ComputeFeesToDistribute` (with the checked running sum). -/
def computeFees (hrp : String) (amount : Int) (denom : String) : List FeeInfo → FeesToDistribute → Res FeesToDistribute
  | [], acc => .ok acc
  | f :: rest, acc => do
    let addr := (accAddressFromBech32 hrp f.recipient).getD []
    let a ← feeEntryAmount amount f
    if a > 0 then
      newCoin denom a "ComputeFeesToDistribute:NewCoin"
      let total := acc.total + a
      if overflows256 total then .err "fee:sum-overflow"
      else computeFees hrp amount denom rest { values := acc.values ++ [(addr, a)], total := total }
    else computeFees hrp amount denom rest acc

/-! ### forwarding attributes -/

def zeros (n : Nat) : Bytes := List.replicate n 0

/-- `Validate()` of the three forwarding attribute types (and of fee attributes). -/
def Attrs.validate (hrp : String) (orbAddr : Bytes) : Attrs → Res Unit
  | .cctp domain mint _ =>
      if domain == Gen.cctpNobleDomain then .err "cctp:noble-domain"
      else if mint.isEmpty then .err "cctp:empty-recipient"
      else .ok ()
  | .hyp tok domain rec_ hook hmeta gas feeDenom feeAmt =>
      if tok.length != Gen.hypTokenIDLen then .err "hyp:token-len"
      else if rec_.length != Gen.hypRecipientLen then .err "hyp:recipient-len"
      else if hook.length != 0 && hook.length != Gen.hypCustomHookLen then .err "hyp:hook-len"
      else if domain == Gen.hypNobleMainnetDomain || domain == Gen.hypNobleTestnetDomain then .err "hyp:noble-domain"
      else if hmeta != "" && !(hmeta.startsWith Gen.hypHookMetadataPrefix
                && isHexString (hmeta.drop Gen.hypHookMetadataPrefix.length).toString) then .err "hyp:metadata"
      else if gas < 0 || gas ≥ 18446744073709551616 then .err "hyp:gas-limit"
      else if feeAmt < 0 then .err "hyp:fee-negative"
      else if (feeAmt != 0 || feeDenom != "") && !validDenom feeDenom then .err "hyp:fee-denom"
      else .ok ()
  | .internal recipient =>
      if recipient == "" then .err "internal:empty"
      else match accAddressFromBech32 hrp recipient with
        | none => .err "internal:recipient"
        | some a => if a == orbAddr then .err "internal:recipient-is-orbiter" else .ok ()
  | .fee infos => validateFeeAttrs hrp infos

/-! ### payload -/

def Action.validate (a : Action) : Res Unit :=
  if !actionValid a.id then .err "action:id"
  else if a.attrs.isNone then .err "action:nil-attributes"
  else .ok ()

def Forwarding.validate (f : Forwarding) : Res Unit :=
  if !protocolValid f.protocolId then .err "forwarding:id"
  else if f.attrs.isNone then .err "forwarding:nil-attributes"
  else .ok ()

def hasDupIds : List Int → Bool
  | [] => false
  | x :: xs => xs.contains x || hasDupIds xs

/-- `Payload.Validate` on the decoded payload (nil elements kept as `none`). -/
def RawPayload.validate (p : RawPayload) : Res Payload := do
  -- first loop: repeated ids; a nil element is refused here
  if p.preActions.any Option.isNone then (.err "payload:nil-action" : Res Unit) else pure ()
  let acts := p.preActions.filterMap id
  if hasDupIds (acts.map (·.id)) then (.err "payload:repeated-action" : Res Unit) else pure ()
  Res.allM Action.validate acts
  match p.forwarding with
  | none => .err "payload:nil-forwarding"
  | some f => do
    f.validate
    pure { forwarding := some f, preActions := acts }

/-- `Payload.Validate` on an already well-typed payload (dispatcher). -/
def Payload.validate (p : Payload) : Res Unit := do
  if hasDupIds (p.preActions.map (·.id)) then (.err "payload:repeated-action" : Res Unit) else pure ()
  Res.allM Action.validate p.preActions
  match p.forwarding with
  | none => .err "payload:nil-forwarding"
  | some f => f.validate

/-- `TransferAttributes.Validate`. -/
def TransferAttrs.validate (t : TransferAttrs) : Res Unit :=
  if !crossChainValid t.srcProtocol t.srcCounterparty then .err "transfer:source-id"
  else if !coinValid t.srcDenom t.srcAmount then .err "transfer:source-coin"
  else if t.srcAmount ≤ 0 then .err "transfer:source-not-positive"
  else if !coinValid t.dstDenom t.dstAmount then .err "transfer:destination-coin"
  else if t.dstAmount ≤ 0 then .err "transfer:destination-not-positive"
  else .ok ()

/-- `NewTransferAttributes`. -/
def newTransferAttrs (p : Int) (cp denom : String) (amt : Int) : Res TransferAttrs :=
  let t : TransferAttrs := { srcProtocol := p, srcCounterparty := cp, srcDenom := denom, srcAmount := amt,
                             dstDenom := denom, dstAmount := amt }
  t.validate >>= fun _ => pure t

/-- `SetDestinationAmount`: negative amounts are stored as zero. -/
def TransferAttrs.setDstAmount (t : TransferAttrs) (a : Int) : TransferAttrs :=
  { t with dstAmount := if a < 0 then 0 else a }

/-! ### denominations (shared with ICS-20) -/

def splitOnSlash (s : String) : List String := s.splitOn "/"

/-- `extractPathAndBaseFromFullDenom`: leading (port, channel) pairs form the path while the second
component has ibc-go's channel format. -/
def extractPath : List String → Nat → List String × List String
  | a :: b :: rest, total =>
      if total > 2 && isValidChannelID b then
        let (p, base) := extractPath rest total
        (a :: b :: p, base)
      else ([], a :: b :: rest)
  | l, _ => ([], l)

/-- `ParseDenomTrace`: (path, base denom). -/
def parseDenomTrace (raw : String) : String × String :=
  let parts := splitOnSlash raw
  if parts.length ≤ 1 then ("", raw)
  else
    let (p, b) := extractPath parts parts.length
    (joinWith "/" p, joinWith "/" b)

def denomPrefix (port chan : String) : String := port ++ "/" ++ chan ++ "/"

/-- `RecoverNativeDenom`. -/
def recoverNativeDenom (denom port chan : String) : Res String :=
  let pre := denomPrefix port chan
  if !denom.startsWith pre then .err "denom:native-of-source"
  else
    let unprefixed := (denom.drop pre.length).toString
    if (parseDenomTrace unprefixed).1 != "" then .err "denom:not-native"
    else .ok unprefixed

/-! ### memo parser -/

/-- `JSONParser.Parse` + `Payload.Validate` (`IBCParser.ParsePayload`). The generic pre-check sees
the whole memo (`json.Unmarshal` into `map[string]any`); the codec then decodes the same text. -/
def parsePayload (π : OneofOrder) (memo : Bytes) : Res Payload :=
  match parseJsonWhole memo with
  | none => .err "parse:not-json"
  | some j =>
    if j.anyNum numOverflowsFloat64 then .err "parse:number-range" else
    match j with
    | .obj fs =>
      if (Json.distinctKeys fs).length != 1 then .err "parse:root-keys"
      else match Json.lookupLast fs Gen.orbiterPrefix with
        | none => .err "parse:no-orbiter-key"
        | some .null => .err "parse:no-orbiter-key"
        | some _ =>
          if j.nullInArray then .err "parse:null-in-array"
          else if j.ambiguous then .err "parse:ambiguous-oneof"
          else ((decWrapper π j).mapErr fun t => "parse:codec:" ++ t) >>= RawPayload.validate
    | .null => .err "parse:root-keys"
    | _ => .err "parse:not-json"

end Orbiter
