package main

// hwire: a second orbiter keeper wired by the harness over the SAME store and the SAME real external
// modules as the app's own keeper, exactly as depinject.go:InjectComponents wires it, but with thin
// decorators at every external boundary. The decorators (i) record the request that reaches each
// bridge verbatim (C05), (ii) can fail the k-th call of any site (C03), and (iii) add a scripted
// denomination-changing action controller under ACTION_SWAP (C06). Only exported API is used.

import (
	"context"
	"encoding/hex"
	"errors"
	"fmt"
	"strconv"
	"strings"

	"google.golang.org/protobuf/runtime/protoiface"

	"cosmossdk.io/core/event"
	sdkmath "cosmossdk.io/math"
	"github.com/cosmos/cosmos-sdk/runtime"
	sdk "github.com/cosmos/cosmos-sdk/types"
	authcodec "github.com/cosmos/cosmos-sdk/x/auth/codec"
	bankkeeper "github.com/cosmos/cosmos-sdk/x/bank/keeper"
	banktypes "github.com/cosmos/cosmos-sdk/x/bank/types"
	"github.com/cosmos/ibc-go/v8/modules/apps/transfer"
	channeltypes "github.com/cosmos/ibc-go/v8/modules/core/04-channel/types"
	porttypes "github.com/cosmos/ibc-go/v8/modules/core/05-port/types"
	ibcexported "github.com/cosmos/ibc-go/v8/modules/core/exported"
	"verifharness/app"

	warpkeeper "github.com/bcp-innovations/hyperlane-cosmos/x/warp/keeper"
	warptypes "github.com/bcp-innovations/hyperlane-cosmos/x/warp/types"
	cctpkeeper "github.com/circlefin/noble-cctp/x/cctp/keeper"
	cctptypes "github.com/circlefin/noble-cctp/x/cctp/types"
	"github.com/circlefin/noble-fiattokenfactory/x/blockibc"

	"github.com/noble-assets/orbiter/v2/controller"
	actionctrl "github.com/noble-assets/orbiter/v2/controller/action"
	adapterctrl "github.com/noble-assets/orbiter/v2/controller/adapter"
	forwardingctrl "github.com/noble-assets/orbiter/v2/controller/forwarding"
	"github.com/noble-assets/orbiter/v2/entrypoint"
	"github.com/noble-assets/orbiter/v2/keeper"
	dispatchercomp "github.com/noble-assets/orbiter/v2/keeper/component/dispatcher"
	forwardercomp "github.com/noble-assets/orbiter/v2/keeper/component/forwarder"
	orbtypes "github.com/noble-assets/orbiter/v2/types"
	forwardertypes "github.com/noble-assets/orbiter/v2/types/component/forwarder"
	actiontypes "github.com/noble-assets/orbiter/v2/types/controller/action"
	forwardingtypes "github.com/noble-assets/orbiter/v2/types/controller/forwarding"
	"github.com/noble-assets/orbiter/v2/types/core"
)

func dispatcherForStats() *dispatchercomp.Dispatcher { return &dispatchercomp.Dispatcher{} }

type hwire struct {
	k      *keeper.Keeper
	stack  porttypes.IBCModule // blockibc -> orbiter(hwire) -> [faultable] ICS-20
	faults map[string]map[int]bool
	counts map[string]int
	calls  []string
	reqs   []string
	swap   swapRule
	// like faults, for calls that panic
	panics map[string]map[int]bool
}

type swapRule struct {
	num, den sdkmath.Int
	denom    string
	pool     sdk.AccAddress
}

var errInjected = errors.New("injected fault")

// hit records a call of site and reports whether an injected fault fires for it.
func (h *hwire) hit(site string) bool {
	h.counts[site]++
	h.calls = append(h.calls, site)
	if h.panics[site][h.counts[site]] || h.panics[site][0] {
		// the external module panics instead of returning an error
		panic("injected panic at " + site)
	}
	return h.faults[site][h.counts[site]] || h.faults[site][0]
}

type bankDec struct {
	h *hwire
	bankkeeper.Keeper
	// the instance handed to the keeper (whose only send is the adapter's sweep): its sends are registered under the sweep's own
	// site name, the one the model uses for that call
	sweep bool
}

func (b bankDec) SendCoinsFromModuleToModule(ctx context.Context, from, to string, amt sdk.Coins) error {
	if b.h.hit("bank.SendCoinsFromModuleToModule") {
		return errInjected
	}
	return b.Keeper.SendCoinsFromModuleToModule(ctx, from, to, amt)
}

func (b bankDec) SendCoins(ctx context.Context, from, to sdk.AccAddress, amt sdk.Coins) error {
	site := "bank.SendCoins"
	if b.sweep {
		site = "bank.SendCoinsFromModuleToModule"
	}
	if b.h.hit(site) {
		return errInjected
	}
	return b.Keeper.SendCoins(ctx, from, to, amt)
}

type cctpDec struct {
	h *hwire
	cctptypes.MsgServer
}

func (c cctpDec) DepositForBurn(ctx context.Context, m *cctptypes.MsgDepositForBurn) (*cctptypes.MsgDepositForBurnResponse, error) {
	c.h.reqs = append(c.h.reqs, fmt.Sprintf("cctp.DepositForBurn:from=%s:amount=%s:domain=%d:mint=%s:burn=%s",
		hx(m.From), canonInt(m.Amount), m.DestinationDomain, hxb(m.MintRecipient), hx(m.BurnToken)))
	if c.h.hit("cctp.DepositForBurn") {
		return nil, errInjected
	}
	return c.MsgServer.DepositForBurn(ctx, m)
}

func (c cctpDec) DepositForBurnWithCaller(ctx context.Context, m *cctptypes.MsgDepositForBurnWithCaller) (*cctptypes.MsgDepositForBurnWithCallerResponse, error) {
	c.h.reqs = append(c.h.reqs, fmt.Sprintf("cctp.DepositForBurnWithCaller:from=%s:amount=%s:domain=%d:mint=%s:burn=%s:caller=%s",
		hx(m.From), canonInt(m.Amount), m.DestinationDomain, hxb(m.MintRecipient), hx(m.BurnToken), hxb(m.DestinationCaller)))
	if c.h.hit("cctp.DepositForBurnWithCaller") {
		return nil, errInjected
	}
	return c.MsgServer.DepositForBurnWithCaller(ctx, m)
}

func (c cctpDec) ReplaceDepositForBurn(ctx context.Context, m *cctptypes.MsgReplaceDepositForBurn) (*cctptypes.MsgReplaceDepositForBurnResponse, error) {
	c.h.reqs = append(c.h.reqs, fmt.Sprintf("cctp.ReplaceDepositForBurn:from=%s:msg=%s:att=%s:caller=%s:mint=%s",
		hx(m.From), hxb(m.OriginalMessage), hxb(m.OriginalAttestation), hxb(m.NewDestinationCaller), hxb(m.NewMintRecipient)))
	if c.h.hit("cctp.ReplaceDepositForBurn") {
		return nil, errInjected
	}
	return c.MsgServer.ReplaceDepositForBurn(ctx, m)
}

type hypDec struct {
	h *hwire
	forwardingtypes.HyperlaneHandler
}

func (d hypDec) Token(ctx context.Context, r *warptypes.QueryTokenRequest) (*warptypes.QueryTokenResponse, error) {
	if d.h.hit("warp.Token") {
		return nil, errInjected
	}
	return d.HyperlaneHandler.Token(ctx, r)
}

func (d hypDec) RemoteTransfer(ctx context.Context, m *warptypes.MsgRemoteTransfer) (*warptypes.MsgRemoteTransferResponse, error) {
	hook := "nil"
	if m.CustomHookId != nil {
		hook = hex.EncodeToString(m.CustomHookId.Bytes())
	}
	d.h.reqs = append(d.h.reqs, fmt.Sprintf("warp.RemoteTransfer:sender=%s:token=%s:domain=%d:recipient=%s:amount=%s:hook=%s:gas=%s:feedenom=%s:feeamt=%s:meta=%s",
		hx(m.Sender), hex.EncodeToString(m.TokenId.Bytes()), m.DestinationDomain, hex.EncodeToString(m.Recipient.Bytes()),
		canonInt(m.Amount), hook, canonInt(m.GasLimit), hx(m.MaxFee.Denom), canonInt(m.MaxFee.Amount), hx(m.CustomHookMetadata)))
	if d.h.hit("warp.RemoteTransfer") {
		return nil, errInjected
	}
	return d.HyperlaneHandler.RemoteTransfer(ctx, m)
}

type internalDec struct {
	h *hwire
	banktypes.MsgServer
}

func (d internalDec) Send(ctx context.Context, m *banktypes.MsgSend) (*banktypes.MsgSendResponse, error) {
	coins := make([]string, 0, len(m.Amount))
	for _, c := range m.Amount {
		coins = append(coins, hx(c.Denom)+"="+canonInt(c.Amount))
	}
	d.h.reqs = append(d.h.reqs, fmt.Sprintf("bank.Send:from=%s:to=%s:coins=%s", hx(m.FromAddress), hx(m.ToAddress), strings.Join(coins, "+")))
	if d.h.hit("bank.Send") {
		return nil, errInjected
	}
	return d.MsgServer.Send(ctx, m)
}

type eventDec struct{ h *hwire }

type eventMgr struct {
	h     *hwire
	inner event.Manager
}

func (e eventDec) EventManager(ctx context.Context) event.Manager {
	return eventMgr{h: e.h, inner: runtime.EventService{}.EventManager(ctx)}
}

func (m eventMgr) Emit(ctx context.Context, ev protoiface.MessageV1) error {
	if m.h.hit("event.Emit") {
		return errInjected
	}
	return m.inner.Emit(ctx, ev)
}

func (m eventMgr) EmitKV(ctx context.Context, t string, attrs ...event.Attribute) error {
	return m.inner.EmitKV(ctx, t, attrs...)
}

func (m eventMgr) EmitNonConsensus(ctx context.Context, ev protoiface.MessageV1) error {
	return m.inner.EmitNonConsensus(ctx, ev)
}

// appDec wraps the ICS-20 application below the middleware.
type appDec struct {
	h *hwire
	porttypes.IBCModule
}

func (a appDec) OnRecvPacket(ctx sdk.Context, p channeltypes.Packet, r sdk.AccAddress) ibcexported.Acknowledgement {
	if a.h.hit("app.OnRecvPacket") {
		return channeltypes.NewErrorAcknowledgement(errInjected)
	}
	return a.IBCModule.OnRecvPacket(ctx, p, r)
}

// swapController: scripted action registered under ACTION_SWAP. It converts the whole running amount
// a into floor(a*num/den) of swap.denom, moving real coins through a pool account so that the ledger
// stays consistent with the forwarder's balance precondition.
type swapController struct {
	*controller.BaseController[core.ActionID]
	h    *hwire
	bank bankkeeper.Keeper
}

func (c *swapController) HandlePacket(ctx context.Context, p *orbtypes.ActionPacket) error {
	if c.h.hit("swap.HandlePacket") {
		return errInjected
	}
	ta := p.TransferAttributes
	in := ta.DestinationAmount()
	out := in.Mul(c.h.swap.num).Quo(c.h.swap.den)
	c.h.reqs = append(c.h.reqs, fmt.Sprintf("swap:in=%s:%s:out=%s:%s", hx(ta.DestinationDenom()), in, hx(c.h.swap.denom), out))
	if !out.IsPositive() {
		return errors.New("swap output not positive")
	}
	if err := c.bank.SendCoins(ctx, core.ModuleAddress, c.h.swap.pool, sdk.NewCoins(sdk.NewCoin(ta.DestinationDenom(), in))); err != nil {
		return err
	}
	if err := c.bank.SendCoins(ctx, c.h.swap.pool, core.ModuleAddress, sdk.NewCoins(sdk.NewCoin(c.h.swap.denom, out))); err != nil {
		return err
	}
	ta.SetDestinationDenom(c.h.swap.denom)
	ta.SetDestinationAmount(out)
	return nil
}

func (s *appState) ensureHW() error {
	if s.hw != nil {
		return nil
	}
	a := s.env.App
	h := &hwire{faults: map[string]map[int]bool{}, counts: map[string]int{}}
	h.swap = swapRule{num: sdkmath.NewInt(1), den: sdkmath.NewInt(1), denom: "uother", pool: sdk.AccAddress([]byte("swap-pool-account-01"))}
	bank := bankDec{h: h, Keeper: a.BankKeeper}
	evs := eventDec{h: h}
	logger := app.Logger()
	k := keeper.NewKeeper(
		a.OrbiterKeeper.Codec(),
		authcodec.NewBech32Codec("noble"),
		logger,
		evs,
		runtime.NewKVStoreService(a.GetKey(core.ModuleName)),
		a.OrbiterKeeper.Authority(),
		bankDec{h: h, Keeper: a.BankKeeper, sweep: true},
	)
	// as depinject.go:InjectActionControllers
	fee, err := actionctrl.NewFeeController(k.Executor().Logger(), k.Executor().EventService(), bank)
	if err != nil {
		return err
	}
	base, err := controller.NewBase(core.ACTION_SWAP)
	if err != nil {
		return err
	}
	swap := &swapController{BaseController: base, h: h, bank: a.BankKeeper}
	if err := k.SetActionControllers(fee, swap); err != nil {
		return err
	}
	// as depinject.go:InjectForwardingControllers
	cctp, err := forwardingctrl.NewCCTPController(k.Forwarder().Logger(), cctpDec{h: h, MsgServer: cctpkeeper.NewMsgServerImpl(a.CCTPKeeper)})
	if err != nil {
		return err
	}
	hyp, err := forwardingctrl.NewHyperlaneController(k.Forwarder().Logger(), hypDec{h: h, HyperlaneHandler: forwardingtypes.NewHyperlaneHandler(
		warpkeeper.NewMsgServerImpl(a.WarpKeeper), warpkeeper.NewQueryServerImpl(a.WarpKeeper))})
	if err != nil {
		return err
	}
	internal, err := forwardingctrl.NewInternalController(k.Forwarder().Logger(), internalDec{h: h, MsgServer: bankkeeper.NewMsgServerImpl(a.BankKeeper)})
	if err != nil {
		return err
	}
	if err := k.SetForwardingControllers(cctp, hyp, internal); err != nil {
		return err
	}
	// as depinject.go:InjectAdapterControllers
	ibc, err := adapterctrl.NewIBCAdapter(k.Codec(), k.Adapter().Logger())
	if err != nil {
		return err
	}
	if err := k.SetAdapterControllers(ibc); err != nil {
		return err
	}
	// as simapp/ibc.go
	var stack porttypes.IBCModule
	stack = appDec{h: h, IBCModule: transfer.NewIBCModule(a.TransferKeeper)}
	stack = entrypoint.NewIBCMiddleware(stack, a.IBCKeeper.ChannelKeeper, k.Adapter())
	stack = blockibc.NewIBCMiddleware(stack, a.FTFKeeper)
	h.k = k
	h.stack = stack
	s.hw = h
	return nil
}

func (h *hwire) resetOp() {
	h.counts = map[string]int{}
	h.calls = nil
	h.reqs = nil
}

func (h *hwire) recvLine(d *driver, s *appState, f []string) string {
	pkt, ok := s.mkPacket(f)
	if !ok {
		return "bad-op"
	}
	h.resetOp()
	obs, bal, sup := s.runRecv(d, h.stack, pkt, true)
	// faults are one-shot: they apply to the operation that follows them
	h.faults = map[string]map[int]bool{}
	h.panics = map[string]map[int]bool{}
	req, ev := "-", "-"
	if obs.ack == "ok" {
		ev = orbiterEventNames(obs.events)
	}
	if len(h.reqs) > 0 {
		req = strings.Join(h.reqs, ";")
	}
	calls := "-"
	if len(h.calls) > 0 {
		calls = strings.Join(h.calls, ",")
	}
	pattr := "-"
	if obs.ack == "panic" {
		pattr = panicAttribution(obs.panicMsg)
	}
	return fmt.Sprintf("ack=%s src=%s bal=%s sup=%s hreq=%s calls=%s ev=%s st=%s pattr=%s acktxt=%s", obs.ack, obs.src, bal, sup, req, calls, ev,
		s.stateStr(s.env.Ctx), pattr, hxb(obs.ackBytes))
}

// fault <site> <k> (k=0: every call) | fault clear | swapctl <num> <den> <denomHex>
func (h *hwire) control(f []string) string {
	switch f[0] {
	case "fault":
		if f[1] == "clear" {
			h.faults = map[string]map[int]bool{}
			h.panics = map[string]map[int]bool{}
			return "ok"
		}
		k, err := strconv.Atoi(f[2])
		if err != nil {
			return "bad-op"
		}
		if len(f) > 3 && f[3] == "panic" {
			if h.panics == nil {
				h.panics = map[string]map[int]bool{}
			}
			if h.panics[f[1]] == nil {
				h.panics[f[1]] = map[int]bool{}
			}
			h.panics[f[1]][k] = true
			return "ok"
		}
		if h.faults[f[1]] == nil {
			h.faults[f[1]] = map[int]bool{}
		}
		h.faults[f[1]][k] = true
		return "ok"
	case "swapctl":
		n, ok1 := sdkmath.NewIntFromString(f[1])
		dn, ok2 := sdkmath.NewIntFromString(f[2])
		if !ok1 || !ok2 || !dn.IsPositive() || n.IsNegative() {
			return "bad-op"
		}
		h.swap.num, h.swap.den, h.swap.denom = n, dn, mustUnhx(f[3])
		return "ok"
	}
	return "bad-op"
}

// msgh <rpc> <signerHex> args…: the forwarder message server of the harness-wired keeper (same store),
// so that the request ReplaceDepositForBurn hands to CCTP is recorded (C05). Message-level rollback as in runMsg.
func (h *hwire) msgLine(d *driver, s *appState, f []string) (out string) {
	defer func() {
		if r := recover(); r != nil {
			out = "res=panic hreq=-"
		}
	}()
	if len(f) < 2 {
		return "bad-op"
	}
	m, ok := s.buildMsg(f[0], mustUnhx(f[1]), f[2:])
	if !ok {
		return "bad-op"
	}
	h.resetOp()
	h.faults = map[string]map[int]bool{}
	ms := forwardercomp.NewMsgServer(h.k.Forwarder(), h.k)
	cacheCtx, write := s.env.Ctx.CacheContext()
	cacheCtx = cacheCtx.WithEventManager(sdk.NewEventManager())
	var err error
	switch mm := m.(type) {
	case *forwardertypes.MsgReplaceDepositForBurn:
		_, err = ms.ReplaceDepositForBurn(cacheCtx, mm)
	case *forwardertypes.MsgPauseProtocol:
		_, err = ms.PauseProtocol(cacheCtx, mm)
	case *forwardertypes.MsgUnpauseProtocol:
		_, err = ms.UnpauseProtocol(cacheCtx, mm)
	case *forwardertypes.MsgPauseCrossChains:
		_, err = ms.PauseCrossChains(cacheCtx, mm)
	case *forwardertypes.MsgUnpauseCrossChains:
		_, err = ms.UnpauseCrossChains(cacheCtx, mm)
	default:
		return "bad-op"
	}
	res := "ok"
	if err != nil {
		res = "err"
	} else {
		write()
	}
	req := "-"
	if len(h.reqs) > 0 {
		req = strings.Join(h.reqs, ";")
	}
	return fmt.Sprintf("res=%s hreq=%s st=%s", res, req, s.stateStr(s.env.Ctx))
}

// acth <amount> <denomHex> <actionId> <k> (<recipientHex> <b|a|n> <valueHex>)*: one action packet straight into the
// executor of the harness-wired keeper (component level, non-committing). The orbiter account is funded with exactly
// the amount first, as it is after the ICS-20 credit on the receive path.
// dispatchh <amount> <denomHex> <memoHex>: Dispatcher.DispatchPayload at component level — the payload is decoded by the
// codec alone (none of the memo parser's checks, no Payload.Validate), the coin is put on the orbiter account as ICS-20
// would have, and the dispatch runs with message-level rollback.
func (h *hwire) dispatchLine(d *driver, s *appState, f []string) (out string) {
	defer func() {
		if r := recover(); r != nil {
			out = "res=panic hreq=- bal=- st=" + s.stateStr(s.env.Ctx)
		}
	}()
	if len(f) < 3 {
		return "bad-op"
	}
	amt, ok := sdkmath.NewIntFromString(f[0])
	if !ok {
		return "bad-op"
	}
	denom := mustUnhx(f[1])
	var pw core.PayloadWrapper
	if err := orbtypes.UnmarshalJSON(s.env.Cdc, []byte(mustUnhx(f[2])), &pw); err != nil {
		return "res=err:decode hreq=- bal=- st=" + s.stateStr(s.env.Ctx)
	}
	h.resetOp()
	h.faults = map[string]map[int]bool{}
	h.panics = map[string]map[int]bool{}
	cacheCtx, write := s.env.Ctx.CacheContext()
	cacheCtx = cacheCtx.WithEventManager(sdk.NewEventManager())
	if amt.IsPositive() && sdk.ValidateDenom(denom) == nil {
		coins := sdk.NewCoins(sdk.NewCoin(denom, amt))
		if err := s.env.App.BankKeeper.MintCoins(cacheCtx, "transfer", coins); err != nil {
			return "bad-op"
		}
		if err := s.env.App.BankKeeper.SendCoinsFromModuleToAccount(cacheCtx, "transfer", core.ModuleAddress, coins); err != nil {
			return "bad-op"
		}
	}
	before := s.snap(cacheCtx)
	ta, err := core.NewTransferAttributes(core.PROTOCOL_IBC, "channel-0", denom, amt)
	if err != nil {
		return "res=err:attrs hreq=- bal=- st=" + s.stateStr(s.env.Ctx)
	}
	derr := h.k.Dispatcher().DispatchPayload(cacheCtx, ta, pw.Orbiter)
	after := s.snap(cacheCtx)
	res, req, bal := "ok", "-", "-"
	if derr != nil {
		res = "err"
	} else {
		write()
		if len(h.reqs) > 0 {
			req = strings.Join(h.reqs, ";")
		}
		bal = deltaStr(before.bal, after.bal)
	}
	return fmt.Sprintf("res=%s hreq=%s bal=%s st=%s", res, req, bal, s.stateStr(s.env.Ctx))
}

func (h *hwire) actLine(d *driver, s *appState, f []string) (out string) {
	defer func() {
		if r := recover(); r != nil {
			out = "res=panic dst=- bal=-"
		}
	}()
	amt, ok := sdkmath.NewIntFromString(f[0])
	if !ok {
		return "bad-op"
	}
	denom := mustUnhx(f[1])
	aid, err := strconv.ParseInt(f[2], 10, 32)
	if err != nil {
		return "bad-op"
	}
	infos, _, ok := buildFeeInfos(f[3:])
	if !ok {
		return "bad-op"
	}
	h.resetOp()
	h.faults = map[string]map[int]bool{}
	cacheCtx, _ := s.env.Ctx.CacheContext()
	cacheCtx = cacheCtx.WithEventManager(sdk.NewEventManager())
	if amt.IsPositive() && sdk.ValidateDenom(denom) == nil {
		coins := sdk.NewCoins(sdk.NewCoin(denom, amt))
		if err := s.env.App.BankKeeper.MintCoins(cacheCtx, "transfer", coins); err != nil {
			return "bad-op"
		}
		if err := s.env.App.BankKeeper.SendCoinsFromModuleToAccount(cacheCtx, "transfer", core.ModuleAddress, coins); err != nil {
			return "bad-op"
		}
	}
	before := s.snap(cacheCtx)
	ta, err := core.NewTransferAttributes(core.PROTOCOL_IBC, "channel-0", denom, amt)
	if err != nil {
		return "res=err:attrs dst=- bal=-"
	}
	action := &core.Action{Id: core.ActionID(aid)}
	if err := action.SetAttributes(&actiontypes.FeeAttributes{FeesInfo: infos}); err != nil {
		return "bad-op"
	}
	pkt := &orbtypes.ActionPacket{TransferAttributes: ta, Action: action}
	herr := h.k.Executor().HandlePacket(cacheCtx, pkt)
	after := s.snap(cacheCtx)
	res := "ok"
	if herr != nil {
		res = "err"
	}
	return fmt.Sprintf("res=%s dst=%s:%s bal=%s", res, hx(ta.DestinationDenom()), ta.DestinationAmount().String(), deltaStr(before.bal, after.bal))
}
