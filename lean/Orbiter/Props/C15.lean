/-
  C15 — Only well-formed payloads are accepted.
  Proved: soundness of acceptance. Whatever the memo bytes, if the parser accepts them then the memo is one
  JSON value, an object whose only root key (however often repeated) is `orbiter`, without `null` in any
  array and without an object carrying both members of the fee-type oneof, and the payload holds exactly one forwarding with a supported protocol identifier and attributes of
  a registered *forwarding* type, and pre-actions with pairwise distinct supported identifiers and attributes
  of a registered *action* type. Parsing is a function of the memo and the oneof order only (C19 isolates
  the latter).
  Round trip (second half of the file): the model has the marshaller (`Orbiter/Encode.lean`: payload → tree → bytes,
  compared byte for byte with `types.MarshalJSON` by stream S1). `c15_roundtrip_tree`: for every payload the Go
  types can hold that passes `Payload.Validate` — in particular every payload built by the constructors,
  `c15_constructed` — whatever text parses to the marshalled tree is accepted by the memo parser and yields
  exactly that payload, under either oneof order. base64, decimal, `math.Int` and enum spellings are inverted
  by the decoders for every value (`Lemmas/Encode.lean`).
-/
import Orbiter.Expect
import Orbiter.Lemmas.NoPanic
import Orbiter.Lemmas.Encode
import Orbiter.Lemmas.JsonText
namespace Orbiter.C15
open Orbiter

/-- Coverage obligation: the messages of the payload (wrapper, payload, action, forwarding, the four attribute types, fee
entries) have, in the descriptors of the built code, exactly the fields — proto names, JSON names, kinds, oneof membership —
the model's decoders and marshaller were written against. -/
theorem pin_payload_fields : Gen.payloadFields = modelPayloadFields := by decide

/-- Coverage obligation: the registered attribute types are the four the decoder resolves, each under the
interface the model files it under (the facts probe `UnpackAny` per interface on the built registry). -/
theorem pin_registered_types :
    Gen.forwardingAttrUrls = [cctpUrl, hypUrl, internalUrl] ∧ Gen.actionAttrUrls = [feeUrl] ∧
    Gen.orbiterPrefix = "orbiter" := by decide

theorem hasDupIds_false_nodup (l : List Int) (h : hasDupIds l = false) : l.Nodup := by
  induction l with
  | nil => exact List.nodup_nil
  | cons x xs ih =>
    simp only [hasDupIds, Bool.or_eq_false_iff] at h
    rw [List.nodup_cons]
    exact ⟨by simpa using h.1, ih h.2⟩

/-- What validation of the decoded payload guarantees. -/
theorem validated_shape {r : RawPayload} {p : Payload} (h : RawPayload.validate r = .ok p) :
    (∃ f, p.forwarding = some f ∧ r.forwarding = some f ∧ protocolValid f.protocolId = true ∧ f.attrs.isSome = true) ∧
    (p.preActions.map (·.id)).Nodup ∧
    (∀ a ∈ p.preActions, actionValid a.id = true ∧ a.attrs.isSome = true) ∧
    p.preActions = r.preActions.filterMap id ∧ r.preActions.any Option.isNone = false := by
  unfold RawPayload.validate at h
  simp only [Res.guard_bind_eq_ok] at h
  obtain ⟨hnil, hdup, h⟩ := h
  obtain ⟨_, hall, h⟩ := Res.bind_eq_ok.mp h
  cases hf : r.forwarding with
  | none => simp [hf] at h
  | some f =>
    simp only [hf] at h
    obtain ⟨_, hfv, h⟩ := Res.bind_eq_ok.mp h
    simp only [Res.pure_eq, Res.ok.injEq] at h
    subst h
    have hfv' : protocolValid f.protocolId = true ∧ f.attrs.isSome = true := by
      unfold Forwarding.validate at hfv
      split at hfv
      · cases hfv
      · rename_i h1
        split at hfv
        · cases hfv
        · rename_i h2
          refine ⟨by simpa using h1, ?_⟩
          cases hq : f.attrs with
          | none => simp [hq] at h2
          | some _ => rfl
    refine ⟨⟨f, rfl, rfl, hfv'.1, hfv'.2⟩, ?_, ?_, rfl, (by cases hq : r.preActions.any Option.isNone with | false => rfl | true => exact absurd hq hnil)⟩
    · exact hasDupIds_false_nodup _ (by simpa using hdup)
    · intro a ha
      have := Res.allM_ok hall a ha
      unfold Action.validate at this
      split at this
      · cases this
      · rename_i h1
        split at this
        · cases this
        · rename_i h2
          refine ⟨by simpa using h1, ?_⟩
          cases hq : a.attrs with
          | none => simp [hq] at h2
          | some _ => rfl

/-- What the interface unpacking guarantees: the attribute family matches the field. -/
theorem unpacked_families {π : OneofOrder} {j : Json} {r : RawPayload} (h : decWrapper π j = .ok r) :
    (∀ a, some a ∈ r.preActions → ∀ at_, a.attrs = some at_ → at_.isAction = true) ∧
    (∀ f, r.forwarding = some f → ∀ at_, f.attrs = some at_ → at_.isForwarding = true) := by
  unfold decWrapper at h
  obtain ⟨fs, _, h⟩ := Res.bind_eq_ok.mp h
  obtain ⟨p, _, h⟩ := Res.bind_eq_ok.mp h
  obtain ⟨_, _, h⟩ := Res.bind_eq_ok.mp h
  unfold unpackInterfaces at h
  obtain ⟨_, hacts, h⟩ := Res.bind_eq_ok.mp h
  obtain ⟨_, hfwd, h⟩ := Res.bind_eq_ok.mp h
  simp only [Res.pure_eq, Res.ok.injEq] at h
  subst h
  constructor
  · intro a ha at_ hat
    have := Res.allM_ok hacts (some a) ha
    obtain ⟨id, attrs⟩ := a
    simp only at hat
    subst hat
    simp only [checkActionFamily] at this
    split at this
    · cases this
    · rename_i hc; simpa using hc
  · intro f hf at_ hat
    rw [hf] at hfwd
    obtain ⟨pid, attrs, pass⟩ := f
    simp only at hat
    subst hat
    simp only [checkForwardingFamily] at hfwd
    split at hfwd
    · cases hfwd
    · rename_i hc; simpa using hc

theorem mem_distinctKeys {fs : List (String × Json)} {kv : String × Json} (h : kv ∈ fs) : kv.1 ∈ Json.distinctKeys fs := by
  unfold Json.distinctKeys
  have key : ∀ (l : List (String × Json)) (acc : List String),
      (∀ a ∈ acc, a ∈ l.foldl (fun acc (kv : String × Json) => if acc.contains kv.1 then acc else acc ++ [kv.1]) acc) ∧
      (∀ x ∈ l, x.1 ∈ l.foldl (fun acc (kv : String × Json) => if acc.contains kv.1 then acc else acc ++ [kv.1]) acc) := by
    intro l
    induction l with
    | nil => intro acc; exact ⟨fun a ha => ha, fun x hx => by cases hx⟩
    | cons y ys ih =>
      intro acc
      simp only [List.foldl_cons]
      obtain ⟨i1, i2⟩ := ih (if acc.contains y.1 then acc else acc ++ [y.1])
      constructor
      · intro a ha
        apply i1
        split
        · exact ha
        · exact List.mem_append_left _ ha
      · intro x hx
        rcases List.mem_cons.mp hx with rfl | hm
        · apply i1
          split
          · rename_i hc; simpa using hc
          · simp
        · exact i2 x hm
  exact (key fs []).2 kv h

/-- **Soundness of acceptance.** -/
theorem c15_accepted_is_wellformed (π : OneofOrder) (memo : Bytes) (p : Payload) (h : parsePayload π memo = .ok p) :
    ∃ fs, parseJsonWhole memo = some (.obj fs) ∧ Json.distinctKeys fs = [Gen.orbiterPrefix] ∧ (Json.obj fs).nullInArray = false ∧
      (Json.obj fs).ambiguous = false ∧
      (∃ f at_, p.forwarding = some f ∧ protocolValid f.protocolId = true ∧ f.attrs = some at_ ∧ at_.isForwarding = true) ∧
      (p.preActions.map (·.id)).Nodup ∧
      (∀ a ∈ p.preActions, actionValid a.id = true ∧ ∃ at_, a.attrs = some at_ ∧ at_.isAction = true) := by
  unfold parsePayload at h
  cases hj : parseJsonWhole memo with
  | none => simp [hj] at h
  | some j =>
    simp only [hj] at h
    split at h
    · cases h
    · cases j with
      | obj fs =>
        simp only at h
        split at h
        · cases h
        · rename_i hkeys
          cases hk : Json.lookupLast fs Gen.orbiterPrefix with
          | none => simp [hk] at h
          | some v =>
            have hv : ∀ (x : Res Payload), (match (some v : Option Json) with
                | none => (Res.err "parse:no-orbiter-key" : Res Payload) | some .null => .err "parse:no-orbiter-key" | some _ => x) = .ok p → x = .ok p := by
              intro x hx
              cases v <;> first | exact hx | cases hx
            simp only [hk] at h
            have h' := hv _ h
            split at h'
            · cases h'
            · rename_i hnia
              split at h'
              · cases h'
              rename_i hamb
              obtain ⟨r, hr, hval⟩ := Res.bind_eq_ok.mp h'
              have hdec : decWrapper π (.obj fs) = .ok r := by
                cases hd : decWrapper π (.obj fs) with
                | ok x => simp only [hd, Res.mapErr, Res.ok.injEq] at hr; rw [hr]
                | err e => simp [hd, Res.mapErr] at hr
                | panic e => simp [hd, Res.mapErr] at hr
              obtain ⟨⟨f, hpf, hrf, hpv, hsome⟩, hnd, hacts, hpa, hnone⟩ := validated_shape hval
              obtain ⟨hfa, hff⟩ := unpacked_families hdec
              refine ⟨fs, rfl, ?_, by simpa using hnia, by simpa using hamb, ?_, hnd, ?_⟩
              · -- exactly one distinct root key, and it is `orbiter` (the lookup found it)
                have hlen : (Json.distinctKeys fs).length = 1 := by simpa using hkeys
                obtain ⟨kv, hm, hkk⟩ := lookupLast_key hk
                have hmem := mem_distinctKeys hm
                rw [hkk] at hmem
                cases hdk : Json.distinctKeys fs with
                | nil => rw [hdk] at hmem; cases hmem
                | cons a rest =>
                  rw [hdk] at hlen hmem
                  cases rest with
                  | nil => simp only [List.mem_singleton] at hmem; rw [hmem]
                  | cons b r => simp at hlen
              · cases hat : f.attrs with
                | none => simp [hat] at hsome
                | some at_ => exact ⟨f, at_, hpf, hpv, hat, hff f hrf at_ hat⟩
              · intro a ha
                obtain ⟨h1, h2⟩ := hacts a ha
                cases hat : a.attrs with
                | none => simp [hat] at h2
                | some at_ =>
                  refine ⟨h1, at_, rfl, hfa a ?_ at_ hat⟩
                  rw [hpa] at ha
                  simp only [List.mem_filterMap, id_eq] at ha
                  obtain ⟨x, hx, rfl⟩ := ha
                  exact hx
      | null => cases h
      | bool b => cases h
      | num r => cases h
      | str x y => cases h
      | arr i => cases h

/-- Any other root key — alone or next to `orbiter` — refuses the memo. -/
theorem c15_extra_root_key_refused (π : OneofOrder) (memo : Bytes) (fs : List (String × Json))
    (hj : parseJsonWhole memo = some (.obj fs)) (hk : (Json.distinctKeys fs).length ≠ 1) :
    ∃ e, parsePayload π memo = .err e := by
  unfold parsePayload
  simp only [hj]
  split
  · exact ⟨_, rfl⟩
  · have : ((Json.distinctKeys fs).length != 1) = true := by simpa using hk
    simp only [this, ↓reduceIte]
    exact ⟨_, rfl⟩

/-- A memo that is not one JSON value is refused. -/
theorem c15_not_json_refused (π : OneofOrder) (memo : Bytes) (hj : parseJsonWhole memo = none) :
    parsePayload π memo = .err "parse:not-json" := by
  unfold parsePayload
  simp only [hj]


/-! ### round trip: constructor → marshalled tree → parser -/

/-- **Round trip at tree level.** For every payload within its Go types that passes `Payload.Validate`: any memo
whose JSON value is the marshalled tree parses back to exactly that payload — for either oneof order, whichever
way an empty passthrough is spelled. -/
theorem c15_roundtrip_tree (π : OneofOrder) (nilPass : Bool) (memo : Bytes) (p : Payload)
    (hparse : parseJsonWhole memo = some (encWrapper nilPass p)) (ht : p.typed = true) (hv : p.validate = .ok ()) :
    parsePayload π memo = .ok p :=
  parsePayload_of_tree π nilPass memo p hparse ht hv

/-- **Round trip, text to payload.** Every payload within its Go types that passes `Payload.Validate` and whose free-text
fields are printable ASCII (`Payload.textOk`: every address, amount, denomination and hook metadata that validation accepts is)
serialises to a memo — the very bytes `types.MarshalJSON` writes, stream S1 — that the memo parser accepts and turns back into
exactly that payload. -/
theorem c15_roundtrip (π : OneofOrder) (nilPass : Bool) (p : Payload)
    (ht : p.typed = true) (hv : p.validate = .ok ()) (hx : p.textOk = true) :
    parsePayload π (marshalPayload nilPass p) = .ok p :=
  c15_roundtrip_tree π nilPass _ p (parse_marshalled nilPass p hx) ht hv

/-- The decoder inverts the marshaller on every well-typed payload, valid or not (what `Validate` then says is
the same on both sides). -/
theorem c15_decode_encode (π : OneofOrder) (nilPass : Bool) (p : Payload) (ht : p.typed = true) :
    decWrapper π (encWrapper nilPass p) = .ok p.toRaw :=
  decWrapper_enc π nilPass p ht

theorem protocolValid_fits {p : Int} (h : protocolValid p = true) : int32Fits p = true := by
  have hall : Gen.protocolIds.all (fun e => int32Fits e.1) = true := by decide
  unfold protocolValid at h
  simp only [Bool.and_eq_true, List.any_eq_true] at h
  obtain ⟨_, e, he, hp⟩ := h
  have : e.1 = p := by simpa using hp
  subst this
  exact List.all_eq_true.mp hall e he

theorem actionValid_fits {a : Int} (h : actionValid a = true) : int32Fits a = true := by
  have hall : Gen.actionIds.all (fun e => int32Fits e.1) = true := by decide
  unfold actionValid at h
  simp only [Bool.and_eq_true, List.any_eq_true] at h
  obtain ⟨_, e, he, hp⟩ := h
  have : e.1 = a := by simpa using hp
  subst this
  exact List.all_eq_true.mp hall e he

/-- What the public constructors build is valid and within the Go types, as soon as the arguments are
(`uint32` domain and basis points, 256-bit `math.Int`s — facts of the argument types, not checks). -/
theorem c15_constructed (hrp : String) (orb : Bytes) (pid : Int) (a : Attrs) (pass : Bytes)
    (f : Forwarding) (acts : List Action) (p : Payload)
    (ha : a.isForwarding = true ∧ a.typed = true)
    (hf : newAttrsForwarding hrp orb pid a pass = .ok f)
    (hacts : ∀ act ∈ acts, ∃ l : List FeeInfo, l.all FeeInfo.typed = true ∧ newFeeAction hrp l = .ok act)
    (hp : newPayload f acts = .ok p) :
    p.validate = .ok () ∧ p.typed = true ∧ p = { forwarding := some f, preActions := acts } := by
  unfold newPayload at hp
  obtain ⟨_, hv, hp⟩ := Res.bind_eq_ok.mp hp
  simp only [Res.pure_eq, Res.ok.injEq] at hp
  subst hp
  refine ⟨by cases ‹Unit›; exact hv, ?_, rfl⟩
  -- the forwarding
  unfold newAttrsForwarding newForwarding at hf
  obtain ⟨_, _, hf⟩ := Res.bind_eq_ok.mp hf
  obtain ⟨_, hfv, hf⟩ := Res.bind_eq_ok.mp hf
  simp only [Res.pure_eq, Res.ok.injEq] at hf
  subst hf
  have hpid : protocolValid pid = true := by
    unfold Forwarding.validate at hfv
    split at hfv
    · cases hfv
    · rename_i h1; simpa using h1
  have hft : Forwarding.typed { protocolId := pid, attrs := some a, passthrough := pass } = true := by
    simp [Forwarding.typed, protocolValid_fits hpid, ha.1, ha.2]
  -- the actions
  have hat : ∀ act ∈ acts, act.typed = true := by
    intro act hact
    obtain ⟨l, hl, hx⟩ := hacts act hact
    unfold newFeeAction newAction at hx
    obtain ⟨_, _, hx⟩ := Res.bind_eq_ok.mp hx
    obtain ⟨_, hxv, hx⟩ := Res.bind_eq_ok.mp hx
    simp only [Res.pure_eq, Res.ok.injEq] at hx
    subst hx
    have hid : actionValid ACTION_FEE = true := by decide
    simp [Action.typed, actionValid_fits hid, Attrs.isAction, Attrs.typed, hl]
  simp only [Payload.typed, Bool.and_eq_true, List.all_eq_true]
  exact ⟨hat, hft⟩

/-- **Every payload built through the module's constructors serialises to a memo that parses back to an equal payload.**
The only assumptions are facts of the argument types (uint32 numbers, integers of at most 256 bits): every string the
constructors accept is printable ASCII (bech32 addresses, decimal / hex / octal amounts, `0x`+hex hook metadata, SDK
denominations — after fix `477a9aa`, which closed the one gap: any denomination string was accepted with a zero maximum fee,
and one that is not valid UTF-8 did not survive the encoding). -/
theorem c15_constructor_roundtrip (π : OneofOrder) (nilPass : Bool) (hrp : String) (orb : Bytes) (pid : Int) (a : Attrs) (pass : Bytes)
    (f : Forwarding) (acts : List Action) (p : Payload)
    (ha : a.isForwarding = true ∧ a.typed = true)
    (hf : newAttrsForwarding hrp orb pid a pass = .ok f)
    (hacts : ∀ act ∈ acts, ∃ l : List FeeInfo, l.all FeeInfo.typed = true ∧ newFeeAction hrp l = .ok act)
    (hp : newPayload f acts = .ok p) :
    parsePayload π (marshalPayload nilPass p) = .ok p := by
  obtain ⟨hv, ht, hpe⟩ := c15_constructed hrp orb pid a pass f acts p ha hf hacts hp
  refine c15_roundtrip π nilPass p ht hv ?_
  subst hpe
  -- the text of the attributes
  have hfa : f.attrs = some a ∧ a.validate hrp orb = .ok () := by
    unfold newAttrsForwarding newForwarding at hf
    obtain ⟨u, hval, hf⟩ := Res.bind_eq_ok.mp hf
    obtain ⟨_, _, hf⟩ := Res.bind_eq_ok.mp hf
    simp only [Res.pure_eq, Res.ok.injEq] at hf
    subst hf
    cases u
    exact ⟨rfl, hval⟩
  have hacts' : ∀ act ∈ acts, (match act.attrs with | some at_ => at_.textOk | none => true) = true := by
    intro act hact
    obtain ⟨l, _, hx⟩ := hacts act hact
    unfold newFeeAction newAction at hx
    obtain ⟨u, hval, hx⟩ := Res.bind_eq_ok.mp hx
    obtain ⟨_, _, hx⟩ := Res.bind_eq_ok.mp hx
    simp only [Res.pure_eq, Res.ok.injEq] at hx
    subst hx
    cases u
    exact attrs_validate_textOk hrp orb (.fee l) (by simp only [Attrs.validate]; exact hval)
  unfold Payload.textOk
  simp only [Bool.and_eq_true, List.all_eq_true]
  refine ⟨hacts', ?_⟩
  simp only [hfa.1]
  exact attrs_validate_textOk hrp orb a hfa.2

/-! non-vacuity: a concrete constructor-built payload meets the hypotheses -/
example :
    let p : Payload := { forwarding := some { protocolId := PROTOCOL_CCTP, attrs := some (.cctp 0 [1, 2, 3] []), passthrough := [] },
                         preActions := [{ id := ACTION_FEE, attrs := some (.fee [{ recipient := "noble1x", feeType := .bps 100 }]) }] }
    p.typed = true ∧ p.validate = .ok () := by decide

end Orbiter.C15
