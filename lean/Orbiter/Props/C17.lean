/-
  C17 — Genesis export/import round-trips and validated genesis initialises.
  `OrbState.Inv` (Lemmas/Inv.lean) is the invariant of the module's store: duplicate-free, valid pause
  sets; statistics maps with unique keys whose identifiers are valid and whose destination text is the
  printed form of a valid identifier. It holds for the empty store and is preserved by every operation
  (`step_inv`), so it holds after any history.
  Proved here: after any history the exported genesis validates and initialises, and the re-initialised
  state is observationally equivalent (same pause sets, same limit, same statistics at every key) and
  again satisfies the invariant; equivalent states are enforced identically on the receive path; any
  genesis accepted by validation initialises.
  The stored lists are moreover sorted in the byte order of their key encodings in every reachable state
  (`OrbState.Srt`, Lemmas/Sorted.lean; the encodings are injective on valid keys and the byte order is a strict
  total order), so the round trip is exact: import of the export returns the very same store and therefore
  re-exports to the same genesis (`c17_roundtrip_exact`).
-/
import Orbiter.Expect
import Orbiter.Lemmas.Reach
import Orbiter.Lemmas.Sorted
import Orbiter.Lemmas.Canonical
import Orbiter.Lemmas.KeyCodec
namespace Orbiter.C17
open Orbiter

/-- Coverage obligation: the genesis document and the entries it carries have exactly the fields the model's `Genesis`
was written against — a new piece of state that export/import would have to carry shows here first. -/
theorem pin_genesis_fields : Gen.genesisFields = modelGenesisFields := by decide

/-- Coverage obligation: the collections of the module live under the prefixes the model assumes, and no prefix is a prefix of
another — each collection is an independent map, as the model's one-list-per-collection state says. -/
theorem pin_store_prefixes : Gen.storePrefixes = modelStorePrefixes ∧
    (∀ a ∈ Gen.storePrefixes, ∀ b ∈ Gen.storePrefixes, a.2 <+: b.2 → a = b) := by
  refine ⟨by decide, ?_⟩
  have : ∀ a ∈ Gen.storePrefixes, ∀ b ∈ Gen.storePrefixes, a.2.isPrefixOf b.2 = true → a = b := by decide
  intro a ha b hb h
  exact this a ha b hb (List.isPrefixOf_iff_prefix.mpr h)

/-- After any history from a state satisfying the invariant (in particular from the empty store), the
store satisfies the invariant. -/
theorem c17_invariant_after_history (wr : Wiring) (w : World) (ops : List Op) (hi : w.orb.Inv) : (run wr w ops).orb.Inv :=
  run_inv wr w ops hi

theorem c17_invariant_initially : OrbState.Inv {} := OrbState.Inv_empty

/-- The exported genesis of such a state passes validation. -/
theorem c17_export_validates (o : OrbState) (hi : o.Inv) : validateGenesis (exportGenesis o) = .ok () :=
  validate_export o hi

/-- …and initialises a fresh store without error, to a state that satisfies the invariant again and is
observationally equivalent: same pause sets, same limit, same totals and counts at every key. -/
theorem c17_export_initialises (o : OrbState) (hi : o.Inv) :
    ∃ o', initGenesis (exportGenesis o) = .ok o' ∧ o'.Inv ∧ o'.Equiv o :=
  reimport_equiv o hi

/-- Both, after any history. -/
theorem c17_roundtrip_after_history (wr : Wiring) (w : World) (ops : List Op) (hi : w.orb.Inv) :
    validateGenesis (exportGenesis (run wr w ops).orb) = .ok () ∧
    ∃ o', initGenesis (exportGenesis (run wr w ops).orb) = .ok o' ∧ o'.Inv ∧ o'.Equiv (run wr w ops).orb :=
  ⟨validate_export _ (run_inv wr w ops hi), reimport_equiv _ (run_inv wr w ops hi)⟩


/-! ### the exact round trip -/

theorem run_good (wr : Wiring) (w : World) (ops : List Op) (hg : w.orb.Good) : (run wr w ops).orb.Good := by
  unfold run
  induction ops generalizing w with
  | nil => exact hg
  | cons op rest ih => exact ih _ (step_good wr noFaults w op hg)

theorem c17_good_initially : OrbState.Good {} := ⟨OrbState.Inv_empty, OrbState.Srt_empty⟩

/-- **Exact round trip after any history.** In every state reachable from a good state (the empty store is
one), once the parameters have been set (any store initialised from a genesis): the exported genesis
validates, initialises a fresh store to *the very same store*, which therefore re-exports to the same
genesis and behaves identically; the in-place round trip reports valid/initialised/same. -/
theorem c17_roundtrip_exact (wr : Wiring) (w : World) (ops : List Op) (hg : w.orb.Good)
    (hp : (run wr w ops).orb.params.isSome = true) :
    validateGenesis (exportGenesis (run wr w ops).orb) = .ok () ∧
    initGenesis (exportGenesis (run wr w ops).orb) = .ok (run wr w ops).orb ∧
    (reimportStep (run wr w ops).orb).2 = (run wr w ops).orb := by
  have hgood := run_good wr w ops hg
  exact ⟨validate_export _ hgood.1, reimport_exact _ hgood hp, (reimportStep_exact _ hgood hp).1⟩

/-- **The export is canonical.** Two histories — any operations, in any order, over any wirings — that leave the module with the same
content (same pause sets, same limit, same statistics at every key) leave it with the very same stored lists and export the very
same genesis document, entry for entry: nothing in the document records the order in which the content came about. -/
theorem c17_export_canonical (wr₁ wr₂ : Wiring) (w₁ w₂ : World) (ops₁ ops₂ : List Op) (h1 : w₁.orb.Good) (h2 : w₂.orb.Good)
    (he : (run wr₁ w₁ ops₁).orb.Equiv (run wr₂ w₂ ops₂).orb) :
    exportGenesis (run wr₁ w₁ ops₁).orb = exportGenesis (run wr₂ w₂ ops₂).orb := by
  obtain ⟨e1, e2, e3, e4, e5⟩ := OrbState.lists_eq_of_equiv (run_good wr₁ w₁ ops₁ h1) (run_good wr₂ w₂ ops₂ h2) he
  unfold exportGenesis
  rw [e1, e2, e3, e4, e5, he.params]

/-- Non-vacuity: the order the store keeps tells `[2, 3]` from `[3, 2]` — one content, one list (hypotheses met by the empty store:
`c17_good_initially`, `Equiv_refl`). -/
example : SortedBy intLt [2, 3] ∧ ¬ SortedBy intLt [3, 2] := by unfold SortedBy; decide

/-- **The store holds the keys the model says it holds.** After any history from a state satisfying the invariant, every statistics key
is written by the non-terminal string codec of the pinned collections fork (which keeps only the first byte of every character:
`sdkEncStrNT`, `Lemmas/KeyCodec.lean`) exactly as the model's faithful encoding writes it — because every identifier that passes
validation is ASCII (repair `8388b7e`). This is the theorem the defect of that repair falsified: see `c17_non_ascii_key_not_faithful`. -/
theorem c17_stored_keys_faithful (wr : Wiring) (w : World) (ops : List Op) (hi : w.orb.Inv) :
    (∀ e ∈ (run wr w ops).orb.amounts, e.1.sdkEnc = e.1.enc) ∧ (∀ e ∈ (run wr w ops).orb.counts, e.1.sdkEnc = e.1.enc) :=
  (run_inv wr w ops hi).keys_faithful

/-- …and the hypothesis is needed: for the identifier `nöble`, which validation accepted before the repair, the codec writes another key. -/
theorem c17_non_ascii_key_not_faithful : sdkEncStrNT "nöble" ≠ encStrNT "nöble" ∧ validateCounterpartyID "nöble" PROTOCOL_INTERNAL = false :=
  ⟨sdkEnc_differs_on_non_ascii, by decide⟩

/-- Every genesis-initialised store has its parameters set. -/
theorem c17_params_set_by_genesis (g : Genesis) (o : OrbState) (h : initGenesis g = .ok o) : o.params.isSome = true := by
  rw [(initGenesis_pause g o h).2.2.2.2]; rfl

/-! ### statistics across export/import: the C12 history theorem without its restriction -/

theorem absStats_of_equiv {a b : OrbState} (h : a.Equiv b) : C12.absStats a = C12.absStats b := by
  simp only [C12.absStats, C12.Stats.mk.injEq]
  exact ⟨funext fun k => h.amounts k (0, 0), funext fun k => h.counts k 0⟩

theorem c17_stats_step (wr : Wiring) (w : World) (op : Op) (hi : w.orb.Inv) (hno : C12.NoOverflow wr w [op]) :
    C12.absStats (step wr noFaults w op).2.orb = C12.specStep wr w (C12.absStats w.orb) op := by
  cases op with
  | reimport => exact absStats_of_equiv (reimportStep_equiv w.orb hi).2
  | recv pkt => exact C12.c12_step_refines wr w _ rfl hno
  | msg m => exact C12.c12_step_refines wr w _ rfl hno
  | deposit a d n => exact C12.c12_step_refines wr w _ rfl hno
  | env e => exact C12.c12_step_refines wr w _ rfl hno

/-- **Statistics continue from the same totals.** For every history — now including export/import round
trips at any point — the statistics are the accumulation of the successful transfers. -/
theorem c17_stats_history (wr : Wiring) (w : World) (ops : List Op) (hi : w.orb.Inv) (hno : C12.NoOverflow wr w ops) :
    C12.absStats (run wr w ops).orb = C12.specRun wr w (C12.absStats w.orb) ops := by
  unfold run
  induction ops generalizing w with
  | nil => rfl
  | cons op rest ih =>
    simp only [List.foldl_cons, C12.specRun]
    rw [← c17_stats_step wr w op hi ⟨hno.1, trivial⟩]
    exact ih _ (step_inv wr noFaults w op hi) hno.2


/-! ### the re-initialised chain behaves identically -/

theorem Equiv_refl (a : OrbState) : a.Equiv a := ⟨fun _ => rfl, fun _ => rfl, fun _ => rfl, rfl, fun _ _ => rfl, fun _ _ => rfl⟩

theorem addAmount_equiv {a b : OrbState} (h : a.Equiv b) (k : AmtKey) (i u : Int) :
    (addAmount a k i u = none ∧ addAmount b k i u = none) ∨
    (∃ a' b', addAmount a k i u = some a' ∧ addAmount b k i u = some b' ∧ a'.Equiv b') := by
  unfold addAmount
  simp only
  rw [h.amounts k (0, 0)]
  generalize hc : (overflows256 _ || overflows256 _) = cnd
  cases cnd with
  | true => left; simp
  | false =>
    right
    simp only [Bool.false_eq_true, ↓reduceIte]
    refine ⟨_, _, rfl, rfl, ?_⟩
    refine ⟨h.pp, h.pc, h.pa, h.params, ?_, h.counts⟩
    intro k' d
    simp only
    rw [lookupD_upsert, lookupD_upsert, h.amounts k' d]

theorem addAmounts_equiv (mk : String → AmtKey) (l : List (String × Int × Int)) {a b : OrbState} (h : a.Equiv b) :
    (addAmounts mk l a).1.Equiv (addAmounts mk l b).1 ∧ (addAmounts mk l a).2 = (addAmounts mk l b).2 := by
  induction l generalizing a b with
  | nil => exact ⟨h, rfl⟩
  | cons e rest ih =>
    simp only [addAmounts]
    rcases addAmount_equiv h (mk e.1) e.2.1 e.2.2 with ⟨h1, h2⟩ | ⟨a', b', h1, h2, he⟩
    · rw [h1, h2]; exact ⟨h, rfl⟩
    · rw [h1, h2]; exact ih he

theorem addCount_equiv {a b : OrbState} (h : a.Equiv b) (ck : CntKey) :
    (addCount a ck).1.Equiv (addCount b ck).1 ∧ (addCount a ck).2 = (addCount b ck).2 := by
  unfold addCount
  simp only
  rw [h.counts ck 0]
  split
  · exact ⟨h, rfl⟩
  · refine ⟨⟨h.pp, h.pc, h.pa, h.params, h.amounts, ?_⟩, rfl⟩
    intro k' d
    simp only
    rw [lookupD_upsert, lookupD_upsert, h.counts k' d]

theorem updateStats_equiv {a b : OrbState} (h : a.Equiv b) (t : TransferAttrs) (f : Forwarding) :
    (updateStats a t f).1.Equiv (updateStats b t f).1 := by
  unfold updateStats
  cases f.attrs with
  | none => exact h
  | some at_ =>
    simp only
    split
    · exact h
    · obtain ⟨h1, h2⟩ := addAmounts_equiv (fun denom => ({ srcProto := t.srcProtocol, srcCp := t.srcCounterparty, dstId := ccidString f.protocolId at_.counterpartyID, denom := denom } : AmtKey)) (buildDispatched t) h
      rw [h2]
      split
      · exact h1
      · exact (addCount_equiv h1 _).1

theorem forwarderHandle_equiv {a b : OrbState} (h : a.Equiv b) (wr : Wiring) (φ : Faults) (c : Ctx) (t : TransferAttrs) (f : Forwarding) :
    forwarderHandle wr φ a c t f = forwarderHandle wr φ b c t f := by
  unfold forwarderHandle
  simp only [h.pp, h.pc]

theorem executorHandle_equiv {a b : OrbState} (h : a.Equiv b) (wr : Wiring) (φ : Faults) (c : Ctx) (t : TransferAttrs) (x : Action) :
    executorHandle wr φ a c t x = executorHandle wr φ b c t x := by
  unfold executorHandle
  simp only [h.pa]

theorem dispatchActions_equiv {a b : OrbState} (h : a.Equiv b) (wr : Wiring) (φ : Faults) (acts : List Action) (c : Ctx) (t : TransferAttrs) :
    dispatchActions wr φ a acts c t = dispatchActions wr φ b acts c t := by
  induction acts generalizing c t with
  | nil => rfl
  | cons x rest ih =>
    simp only [dispatchActions, executorHandle_equiv h]
    cases executorHandle wr φ b c t x with
    | ok r => obtain ⟨c1, t1⟩ := r; simp only [Res.bind_ok]; exact ih c1 t1
    | err e => rfl
    | panic e => rfl

/-- **Same enforcement.** On equivalent module states — in particular a state and its export/import image —
every packet gets the same acknowledgement and produces the same context (ledger, external state, moves,
requests, events, calls), and the resulting module states are again equivalent. -/
theorem c17_behaves_identically {a b : OrbState} (h : a.Equiv b) (wr : Wiring) (φ : Faults) (c0 : Ctx) (pkt : Packet) :
    (mwOnRecv wr φ a c0 pkt).ack = (mwOnRecv wr φ b c0 pkt).ack ∧
    (mwOnRecv wr φ a c0 pkt).ctx = (mwOnRecv wr φ b c0 pkt).ctx ∧
    (mwOnRecv wr φ a c0 pkt).orb.Equiv (mwOnRecv wr φ b c0 pkt).orb := by
  unfold mwOnRecv
  split
  · exact ⟨rfl, rfl, h⟩
  · split
    · exact ⟨rfl, rfl, h⟩
    · split
      · exact ⟨rfl, rfl, h⟩
      · cases adaptPacket wr pkt with
        | err e => exact ⟨rfl, rfl, h⟩
        | panic e => exact ⟨rfl, rfl, h⟩
        | ok r =>
          cases r with
          | notOrbiter =>
            simp only
            cases ics20Recv wr.cfg c0 pkt <;> exact ⟨rfl, rfl, h⟩
          | orbiter t p =>
            simp only
            have hb : beforeTransferHook wr φ a c0 t p = beforeTransferHook wr φ b c0 t p := by
              unfold beforeTransferHook
              simp only [h.params]
            rw [hb]
            cases beforeTransferHook wr φ b c0 t p with
            | err e => exact ⟨rfl, rfl, h⟩
            | panic e => exact ⟨rfl, rfl, h⟩
            | ok c1 =>
              simp only
              cases wrappedApp wr φ c1 pkt with
              | err e => exact ⟨rfl, rfl, h⟩
              | panic e => exact ⟨rfl, rfl, h⟩
              | ok c2 =>
                simp only
                unfold processPayload dispatchPayload
                simp only [dispatchActions_equiv h]
                cases p.validate with
                | err e => exact ⟨rfl, rfl, h⟩
                | panic e => exact ⟨rfl, rfl, h⟩
                | ok u =>
                  simp only [Res.mapErr, Res.bind_ok]
                  cases dispatchActions wr φ b p.preActions c2 t with
                  | err e => exact ⟨rfl, rfl, h⟩
                  | panic e => exact ⟨rfl, rfl, h⟩
                  | ok r1 =>
                    obtain ⟨c3, t3⟩ := r1
                    simp only [Res.bind_ok]
                    cases p.forwarding with
                    | none => exact ⟨rfl, rfl, h⟩
                    | some f =>
                      simp only [Res.pure_eq, Res.bind_ok, forwarderHandle_equiv h]
                      cases forwarderHandle wr φ b c3 t3 f with
                      | err e => exact ⟨rfl, rfl, h⟩
                      | panic e => exact ⟨rfl, rfl, h⟩
                      | ok c4 =>
                        simp only [Res.bind_ok]
                        cases c4.emit φ "EventPayloadProcessed" with
                        | err e => exact ⟨rfl, rfl, h⟩
                        | panic e => exact ⟨rfl, rfl, h⟩
                        | ok c5 => exact ⟨rfl, rfl, updateStats_equiv h t3 f⟩


/-! ### any genesis accepted by validation can be initialised -/

theorem nodup_of_hasDup_false {α} [DecidableEq α] (l : List α) (h : hasDup l = false) : l.Nodup := by
  induction l with
  | nil => exact List.nodup_nil
  | cons x xs ih =>
    simp only [hasDup, Bool.or_eq_false_iff] at h
    rw [List.nodup_cons]
    exact ⟨by simpa using h.1, ih h.2⟩

theorem validId_some {c : Option (Int × String)} (h : validId c = true) : ∃ p cp, c = some (p, cp) ∧ crossChainValid p cp = true := by
  cases c with
  | none => simp [validId] at h
  | some pc => obtain ⟨p, cp⟩ := pc; exact ⟨p, cp, rfl, by simpa [validId] using h⟩

theorem fold_initAmtStep_ok (l : List (Option (Int × String) × Option (Int × String) × String × Int × Int))
    (hv : ∀ a ∈ l, validateAmtEntry a = .ok ()) (acc : OrbState) :
    ∃ r, l.foldlM initAmtStep acc = .ok r ∧ r.samePause acc := by
  induction l generalizing acc with
  | nil => exact ⟨acc, rfl, rfl, rfl, rfl, rfl⟩
  | cons a rest ih =>
    obtain ⟨src, dst, denom, inc, out⟩ := a
    have hva := hv _ List.mem_cons_self
    simp only [validateAmtEntry, Res.guard_bind_eq_ok] at hva
    obtain ⟨_, h2, h3, _⟩ := hva
    obtain ⟨sp, scp, rfl, hs⟩ := validId_some (by simpa using h2)
    obtain ⟨dp, dcp, rfl, hd⟩ := validId_some (by simpa using h3)
    have hn1 : hasNul scp = false := crossChainValid_noNul hs
    have hn2 : hasNul (ccidString dp dcp) = false := ccidString_noNul (crossChainValid_noNul hd)
    have hp : parseCrossChainID (ccidString dp dcp) = some (dp, dcp) := C20.c20_roundtrip dp dcp hd
    have hstep : ∃ acc', initAmtStep acc (some (sp, scp), some (dp, dcp), denom, inc, out) = .ok acc' ∧ acc'.samePause acc := by
      refine ⟨{ acc with amounts := upsert amtLt acc.amounts { srcProto := sp, srcCp := scp, dstId := ccidString dp dcp, denom := denom } (inc, out) }, ?_, ?_⟩
      · simp only [initAmtStep, hn1, hn2, Bool.or_self, Bool.false_eq_true, ↓reduceIte, hp, Option.isNone_some, Res.pure_eq]
      · exact ⟨rfl, rfl, rfl, rfl⟩
    obtain ⟨acc', h1, hs1⟩ := hstep
    obtain ⟨r, hr, hs2⟩ := ih (fun x hx => hv x (List.mem_cons_of_mem _ hx)) acc'
    refine ⟨r, ?_, ?_⟩
    · simp only [List.foldlM_cons, h1, Res.bind_ok, hr]
    · exact ⟨hs2.1.trans hs1.1, hs2.2.1.trans hs1.2.1, hs2.2.2.1.trans hs1.2.2.1, hs2.2.2.2.trans hs1.2.2.2⟩

theorem fold_initCntStep_ok (l : List (Option (Int × String) × Option (Int × String) × Nat))
    (hv : ∀ a ∈ l, validateCntEntry a = .ok ()) (acc : OrbState) :
    ∃ r, l.foldlM initCntStep acc = .ok r ∧ r.samePause acc := by
  induction l generalizing acc with
  | nil => exact ⟨acc, rfl, rfl, rfl, rfl, rfl⟩
  | cons a rest ih =>
    obtain ⟨src, dst, n⟩ := a
    have hva := hv _ List.mem_cons_self
    simp only [validateCntEntry, Res.guard_bind_eq_ok] at hva
    obtain ⟨_, h2, h3⟩ := hva
    obtain ⟨sp, scp, rfl, hs⟩ := validId_some (by simpa using h2)
    have h3' : validId dst = true := by
      cases hq : validId dst with
      | true => rfl
      | false => simp [hq] at h3
    obtain ⟨dp, dcp, rfl, hd⟩ := validId_some h3'
    have hn1 : hasNul scp = false := crossChainValid_noNul hs
    have hstep : ∃ acc', initCntStep acc (some (sp, scp), some (dp, dcp), n) = .ok acc' ∧ acc'.samePause acc := by
      refine ⟨{ acc with counts := upsert cntLt acc.counts { srcProto := sp, srcCp := scp, dstProto := dp, dstCp := dcp } n }, ?_, ?_⟩
      · simp only [initCntStep, hn1, Bool.false_eq_true, ↓reduceIte, Res.pure_eq]
      · exact ⟨rfl, rfl, rfl, rfl⟩
    obtain ⟨acc', h1, hs1⟩ := hstep
    obtain ⟨r, hr, hs2⟩ := ih (fun x hx => hv x (List.mem_cons_of_mem _ hx)) acc'
    refine ⟨r, ?_, ?_⟩
    · simp only [List.foldlM_cons, h1, Res.bind_ok, hr]
    · exact ⟨hs2.1.trans hs1.1, hs2.2.1.trans hs1.2.1, hs2.2.2.1.trans hs1.2.2.1, hs2.2.2.2.trans hs1.2.2.2⟩

theorem fold_initCcStep_ok (L : List (Option (Int × String))) (hn : L.Nodup) (hv : ∀ c ∈ L, validId c = true) (o : OrbState)
    (hd : ∀ pc, some pc ∈ L → pc ∉ o.pausedCrossChains) : ∃ o', L.foldlM initCcStep o = .ok o' := by
  induction L generalizing o with
  | nil => exact ⟨o, rfl⟩
  | cons x rest ih =>
    rw [List.nodup_cons] at hn
    obtain ⟨p, cp, rfl, hvx⟩ := validId_some (hv x List.mem_cons_self)
    have hx : setPausedCrossChain o p cp = .ok { o with pausedCrossChains := insertBy ccLt (p, cp) o.pausedCrossChains } := by
      have h2 : (p, cp) ∉ o.pausedCrossChains := hd (p, cp) List.mem_cons_self
      simp [setPausedCrossChain, hvx, h2]
    simp only [List.foldlM_cons, initCcStep, hx, asPanic, Res.bind_ok]
    apply ih hn.2 (fun q hq => hv q (List.mem_cons_of_mem _ hq))
    intro q hq hm
    rcases (mem_insertBy ccLt (p, cp) q o.pausedCrossChains).mp hm with h | h
    · exact hn.1 (h ▸ hq)
    · exact hd q (List.mem_cons_of_mem _ hq) h

/-- **Any genesis accepted by validation can be initialised** (no panic, no error). -/
theorem c17_validated_initialises (g : Genesis) (hv : validateGenesis g = .ok ()) : ∃ o, initGenesis g = .ok o := by
  unfold validateGenesis at hv
  obtain ⟨_, h1, hv⟩ := Res.bind_eq_ok.mp hv
  obtain ⟨_, h2, hv⟩ := Res.bind_eq_ok.mp hv
  simp only [Res.guard_bind_eq_ok] at hv
  obtain ⟨g3, g4, g5, g6, g7, g8⟩ := hv
  have g8' : hasDup g.pausedActions = false := by
    cases hq : hasDup g.pausedActions with
    | false => rfl
    | true => simp [hq] at g8
  unfold initGenesis
  obtain ⟨o1, e1, s1⟩ := fold_initAmtStep_ok g.amounts (Res.allM_ok h1) { params := some g.params }
  obtain ⟨o2, e2, s2⟩ := fold_initCntStep_ok g.counts (Res.allM_ok h2) o1
  have p2 : o2.pausedProtocols = [] := s2.1.trans s1.1
  have c2 : o2.pausedCrossChains = [] := s2.2.1.trans s1.2.1
  have a2 : o2.pausedActions = [] := s2.2.2.1.trans s1.2.2.1
  obtain ⟨o3, e3⟩ := fold_setPausedProtocol_ok g.pausedProtocols (nodup_of_hasDup_false _ (by simpa using g5))
    (by have := g3; simp only [List.any_eq_true, Bool.not_eq_true', not_exists, not_and, Bool.not_eq_false] at this; exact this) o2 (by intro p _; rw [p2]; simp)
  obtain ⟨_, _, q3, q4, _⟩ := fold_setPausedProtocol _ o2 o3 (by rw [p2]; exact List.nodup_nil) e3
  obtain ⟨o4, e4⟩ := fold_initCcStep_ok g.pausedCrossChains (nodup_of_hasDup_false _ (by simpa using g6))
    (by have := g4; simp only [List.any_eq_true, Bool.not_eq_true', not_exists, not_and, Bool.not_eq_false] at this; exact this) o3 (by intro pc _; rw [q3, c2]; simp)
  obtain ⟨_, _, _, r4, _⟩ := fold_setPausedCrossChain _ o3 o4 (by rw [q3, c2]; exact List.nodup_nil) e4
  obtain ⟨o5, e5⟩ := fold_setPausedAction_ok g.pausedActions (nodup_of_hasDup_false _ g8')
    (by have := g7; simp only [List.any_eq_true, Bool.not_eq_true', not_exists, not_and, Bool.not_eq_false] at this; exact this) o4 (by intro a _; rw [r4, q4, a2]; simp)
  exact ⟨o5, by simp only [e1, Res.bind_ok, e2, e3, e4, e5]⟩

/-- The same at the level of the JSON document the module is handed: a document accepted by `ValidateGenesis` has all
four component sections and initialises (a document that omits a section, or spells it `null`, is refused — it would
make `InitGenesis` panic). -/
theorem c17_doc_validated_initialises (d : GenesisDoc) (hv : validateGenesisDoc d = .ok ()) :
    d.nilSections = [] ∧ ∃ o, initGenesisDoc d = .ok o := by
  unfold validateGenesisDoc at hv
  cases hn : d.nilSections with
  | cons a t => simp [hn] at hv
  | nil =>
    simp only [hn, List.isEmpty_nil, Bool.not_true, Bool.false_eq_true, ↓reduceIte] at hv
    refine ⟨rfl, ?_⟩
    unfold initGenesisDoc
    simp only [hn, List.isEmpty_nil, Bool.not_true, Bool.false_eq_true, ↓reduceIte]
    exact c17_validated_initialises d.body hv

theorem c17_doc_nil_section_refused (d : GenesisDoc) (h : d.nilSections ≠ []) :
    validateGenesisDoc d = .err "genesis:nil-section" ∧ ∃ s, initGenesisDoc d = .panic s := by
  unfold validateGenesisDoc initGenesisDoc
  cases hn : d.nilSections with
  | nil => exact absurd hn h
  | cons a t => simp

/-! ### non-vacuity: a non-trivial state satisfying the invariant -/
example : crossChainValid 2 "5" = true ∧ crossChainValid 1 "channel-0" = true := by decide

end Orbiter.C17
