/-
  Stage lemmas about the receive path that several properties share.
-/
import Orbiter.Lemmas.State
namespace Orbiter

/-- The only thing dispatching writes to the module's own store is the statistics update. -/
theorem dispatchPayload_orb {wr : Wiring} {φ : Faults} {o o' : OrbState} {c c' : Ctx} {t t' : TransferAttrs} {p : Payload}
    (h : dispatchPayload wr φ o c t p = .ok (c', t', o')) : ∃ f, p.forwarding = some f ∧ o' = (updateStats o t' f).1 := by
  unfold dispatchPayload at h
  cases hv : p.validate with
  | err e => simp [hv, Res.mapErr] at h
  | panic e => simp [hv, Res.mapErr] at h
  | ok u =>
    simp only [hv, Res.mapErr, Res.bind_ok] at h
    cases hd : dispatchActions wr φ o p.preActions c t with
    | err e => simp [hd] at h
    | panic e => simp [hd] at h
    | ok r =>
      obtain ⟨c1, t1⟩ := r
      simp only [hd, Res.bind_ok] at h
      cases hf : p.forwarding with
      | none => simp [hf] at h
      | some f =>
        simp only [hf, Res.pure_eq, Res.bind_ok] at h
        cases hfw : forwarderHandle wr φ o c1 t1 f with
        | err e => simp [hfw] at h
        | panic e => simp [hfw] at h
        | ok c2 =>
          simp only [hfw, Res.bind_ok, Res.ok.injEq, Prod.mk.injEq] at h
          exact ⟨f, rfl, by rw [← h.2.2, ← h.2.1]⟩

theorem processPayload_sameAdmin {wr : Wiring} {φ : Faults} {o o' : OrbState} {c c' : Ctx} {t : TransferAttrs} {p : Payload}
    (h : processPayload wr φ o c t p = .ok (c', o')) : o'.sameAdmin o := by
  unfold processPayload at h
  cases hd : dispatchPayload wr φ o c t p with
  | err e => simp [hd] at h
  | panic e => simp [hd] at h
  | ok r =>
    obtain ⟨c1, t1, o1⟩ := r
    simp only [hd, Res.bind_ok] at h
    cases he : c1.emit φ "EventPayloadProcessed" with
    | err e => simp [he] at h
    | panic e => simp [he] at h
    | ok c2 =>
      simp only [he, Res.bind_ok, Res.pure_eq, Res.ok.injEq, Prod.mk.injEq] at h
      obtain ⟨f, _, ho⟩ := dispatchPayload_orb hd
      rw [← h.2, ho]
      exact updateStats_frame o t1 f

/-- Receiving a packet never changes the pause sets or the parameters, whatever the packet, the
wiring and the fault oracle. -/
theorem mwOnRecv_sameAdmin (wr : Wiring) (φ : Faults) (o : OrbState) (c0 : Ctx) (pkt : Packet) :
    (mwOnRecv wr φ o c0 pkt).orb.sameAdmin o := by
  unfold mwOnRecv
  split
  · exact OrbState.sameAdmin_refl o
  · split
    · exact OrbState.sameAdmin_refl o
    · split
      · exact OrbState.sameAdmin_refl o
      · split
        · exact OrbState.sameAdmin_refl o
        · exact OrbState.sameAdmin_refl o
        · split <;> exact OrbState.sameAdmin_refl o
        · split
          · exact OrbState.sameAdmin_refl o
          · exact OrbState.sameAdmin_refl o
          · split
            · exact OrbState.sameAdmin_refl o
            · exact OrbState.sameAdmin_refl o
            · split
              · rename_i hp
                exact processPayload_sameAdmin hp
              · exact OrbState.sameAdmin_refl o
              · exact OrbState.sameAdmin_refl o

theorem stackOnRecv_sameAdmin (wr : Wiring) (φ : Faults) (o : OrbState) (c0 : Ctx) (pkt : Packet) :
    (stackOnRecv wr φ o c0 pkt).orb.sameAdmin o := by
  unfold stackOnRecv
  split
  · exact OrbState.sameAdmin_refl o
  · exact OrbState.sameAdmin_refl o
  · exact mwOnRecv_sameAdmin wr φ o c0 pkt

theorem ibcRecv_sameAdmin (wr : Wiring) (φ : Faults) (w : World) (pkt : Packet) :
    (ibcRecv wr φ w pkt).orb.sameAdmin w.orb := by
  unfold ibcRecv
  simp only
  split
  · exact stackOnRecv_sameAdmin wr φ w.orb (ctxOf w) pkt
  · exact OrbState.sameAdmin_refl w.orb

/-- An acknowledgement that is not a success commits nothing (ibc-go core discards the cached context). -/
theorem ibcRecv_error_commits_nothing (wr : Wiring) (φ : Faults) (w : World) (pkt : Packet)
    (h : (ibcRecv wr φ w pkt).ack.isSuccess = false) : (ibcRecv wr φ w pkt).world = w := by
  unfold ibcRecv at h ⊢
  simp only at h ⊢
  split
  · rename_i hs
    simp only [hs, ↓reduceIte] at h
    cases h
  · simp [RecvOut.world, ctxOf]

/-! ### the success path, stage by stage -/

/-- A successful acknowledgement for an orbiter packet means every stage succeeded, in this order:
hook (size check + sweep) → wrapped ICS-20 application → dispatch. -/
theorem mwOnRecv_success_orbiter {wr : Wiring} {φ : Faults} {o : OrbState} {c0 : Ctx} {pkt : Packet} {t : TransferAttrs} {p : Payload}
    (hs : (mwOnRecv wr φ o c0 pkt).ack.isSuccess = true) (ha : adaptPacket wr pkt = .ok (.orbiter t p)) :
    ∃ c1 c2 c3 o', beforeTransferHook wr φ o c0 t p = .ok c1 ∧ wrappedApp wr φ c1 pkt = .ok c2 ∧
      processPayload wr φ o c2 t p = .ok (c3, o') ∧ mwOnRecv wr φ o c0 pkt = { ack := .success, ctx := c3, orb := o' } := by
  unfold mwOnRecv at hs ⊢
  split at hs
  · simp [Ack.isSuccess] at hs
  · split at hs
    · simp [Ack.isSuccess] at hs
    · split at hs
      · simp [Ack.isSuccess] at hs
      · rename_i h1 h2 h3
        simp only [h1, h2, h3, Bool.false_eq_true, ↓reduceIte, ha] at hs ⊢
        cases hb : beforeTransferHook wr φ o c0 t p with
        | err e => simp [hb, Ack.isSuccess] at hs
        | panic e => simp [hb, Ack.isSuccess] at hs
        | ok c1 =>
          simp only [hb] at hs ⊢
          cases hw : wrappedApp wr φ c1 pkt with
          | err e => simp [hw, Ack.isSuccess] at hs
          | panic e => simp [hw, Ack.isSuccess] at hs
          | ok c2 =>
            simp only [hw] at hs ⊢
            cases hp : processPayload wr φ o c2 t p with
            | err e => simp [hp, Ack.isSuccess] at hs
            | panic e => simp [hp, Ack.isSuccess] at hs
            | ok r =>
              obtain ⟨c3, o'⟩ := r
              exact ⟨c1, c2, c3, o', rfl, hw, hp, by simp⟩

/-- A success acknowledgement comes from exactly one of two paths. -/
theorem mwOnRecv_success_cases {wr : Wiring} {φ : Faults} {o : OrbState} {c0 : Ctx} {pkt : Packet}
    (hs : (mwOnRecv wr φ o c0 pkt).ack.isSuccess = true) :
    (adaptPacket wr pkt = .ok .notOrbiter ∧ ∃ c, ics20Recv wr.cfg c0 pkt = .ok c ∧ mwOnRecv wr φ o c0 pkt = { ack := .success, ctx := c, orb := o }) ∨
    (∃ t p, adaptPacket wr pkt = .ok (.orbiter t p)) := by
  unfold mwOnRecv at hs ⊢
  split at hs
  · simp [Ack.isSuccess] at hs
  · split at hs
    · simp [Ack.isSuccess] at hs
    · split at hs
      · simp [Ack.isSuccess] at hs
      · rename_i h1 h2 h3
        simp only [h1, h2, h3, Bool.false_eq_true, ↓reduceIte] at hs ⊢
        cases ha : adaptPacket wr pkt with
        | err e => simp [ha, Ack.isSuccess] at hs
        | panic e => simp [ha, Ack.isSuccess] at hs
        | ok r =>
          cases r with
          | orbiter t p => exact Or.inr ⟨t, p, rfl⟩
          | notOrbiter =>
            left
            simp only [ha] at hs ⊢
            cases hi : ics20Recv wr.cfg c0 pkt with
            | err e => simp [hi, Ack.isSuccess] at hs
            | panic e => simp [hi, Ack.isSuccess] at hs
            | ok c => exact ⟨trivial, c, rfl, by simp⟩

theorem stackOnRecv_success {wr : Wiring} {φ : Faults} {o : OrbState} {c0 : Ctx} {pkt : Packet}
    (hs : (stackOnRecv wr φ o c0 pkt).ack.isSuccess = true) :
    stackOnRecv wr φ o c0 pkt = mwOnRecv wr φ o c0 pkt := by
  unfold stackOnRecv at hs ⊢
  split
  · rename_i h; simp [h, Ack.isSuccess] at hs
  · rename_i h; simp [h, Ack.isSuccess] at hs
  · rfl

theorem ibcRecv_success {wr : Wiring} {φ : Faults} {w : World} {pkt : Packet}
    (hs : (ibcRecv wr φ w pkt).ack.isSuccess = true) :
    ibcRecv wr φ w pkt = mwOnRecv wr φ w.orb (ctxOf w) pkt := by
  unfold ibcRecv at hs ⊢
  simp only at hs ⊢
  by_cases h : (stackOnRecv wr φ w.orb (ctxOf w) pkt).ack.isSuccess = true
  · simp only [h, ↓reduceIte]
    exact stackOnRecv_success h
  · simp only [h, Bool.false_eq_true, ↓reduceIte] at hs

theorem ibcRecv_ack (wr : Wiring) (φ : Faults) (w : World) (pkt : Packet) :
    (ibcRecv wr φ w pkt).ack = (stackOnRecv wr φ w.orb (ctxOf w) pkt).ack := by
  unfold ibcRecv
  simp only
  split <;> rfl

theorem processPayload_ok {wr : Wiring} {φ : Faults} {o o' : OrbState} {c c' : Ctx} {t : TransferAttrs} {p : Payload}
    (h : processPayload wr φ o c t p = .ok (c', o')) :
    ∃ c1 t1, dispatchPayload wr φ o c t p = .ok (c1, t1, o') ∧ c1.emit φ "EventPayloadProcessed" = .ok c' := by
  unfold processPayload at h
  cases hd : dispatchPayload wr φ o c t p with
  | err e => simp [hd] at h
  | panic e => simp [hd] at h
  | ok r =>
    obtain ⟨c1, t1, o1⟩ := r
    simp only [hd, Res.bind_ok] at h
    cases he : c1.emit φ "EventPayloadProcessed" with
    | err e => simp [he] at h
    | panic e => simp [he] at h
    | ok c2 =>
      simp only [he, Res.bind_ok, Res.pure_eq, Res.ok.injEq, Prod.mk.injEq] at h
      obtain ⟨rfl, rfl⟩ := h
      exact ⟨c1, t1, rfl, he⟩

theorem dispatchPayload_ok {wr : Wiring} {φ : Faults} {o o' : OrbState} {c c' : Ctx} {t t' : TransferAttrs} {p : Payload}
    (h : dispatchPayload wr φ o c t p = .ok (c', t', o')) :
    ∃ c1 f, p.validate = .ok () ∧ dispatchActions wr φ o p.preActions c t = .ok (c1, t') ∧ p.forwarding = some f ∧
      forwarderHandle wr φ o c1 t' f = .ok c' ∧ o' = (updateStats o t' f).1 := by
  unfold dispatchPayload at h
  cases hv : p.validate with
  | err e => simp [hv, Res.mapErr] at h
  | panic e => simp [hv, Res.mapErr] at h
  | ok u =>
    simp only [hv, Res.mapErr, Res.bind_ok] at h
    cases hd : dispatchActions wr φ o p.preActions c t with
    | err e => simp [hd] at h
    | panic e => simp [hd] at h
    | ok r =>
      obtain ⟨c1, t1⟩ := r
      simp only [hd, Res.bind_ok] at h
      cases hf : p.forwarding with
      | none => simp [hf] at h
      | some f =>
        simp only [hf, Res.pure_eq, Res.bind_ok] at h
        cases hfw : forwarderHandle wr φ o c1 t1 f with
        | err e => simp [hfw] at h
        | panic e => simp [hfw] at h
        | ok c2 =>
          simp only [hfw, Res.bind_ok, Res.ok.injEq, Prod.mk.injEq] at h
          obtain ⟨rfl, rfl, rfl⟩ := h
          exact ⟨c1, f, rfl, rfl, rfl, hfw, rfl⟩

/-- A successfully acknowledged orbiter packet went through a successful dispatch. -/
theorem ibcRecv_success_dispatch {wr : Wiring} {φ : Faults} {w : World} {pkt : Packet} {t : TransferAttrs} {p : Payload}
    (hs : (ibcRecv wr φ w pkt).ack.isSuccess = true) (ha : adaptPacket wr pkt = .ok (.orbiter t p)) :
    ∃ c1 c2 c3 t3, beforeTransferHook wr φ w.orb (ctxOf w) t p = .ok c1 ∧ wrappedApp wr φ c1 pkt = .ok c2 ∧
      dispatchPayload wr φ w.orb c2 t p = .ok (c3, t3, (ibcRecv wr φ w pkt).orb) ∧
      c3.emit φ "EventPayloadProcessed" = .ok (ibcRecv wr φ w pkt).ctx := by
  have he := ibcRecv_success hs
  rw [he] at hs ⊢
  obtain ⟨c1, c2, c3, o', h1, h2, h3, h4⟩ := mwOnRecv_success_orbiter hs ha
  obtain ⟨c4, t4, h5, h6⟩ := processPayload_ok h3
  rw [h4]
  exact ⟨c1, c2, c4, t4, h1, h2, h5, h6⟩

end Orbiter
