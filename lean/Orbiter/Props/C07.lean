/-
  C07 — The middleware is transparent for everything that is not an orbiter transfer.
  "An ICS-20 transfer whose receiver is the orbiter account" is `orbiterAddressed`: the data decodes as
  ICS-20 packet data (with the transfer application's own strict decoder) and the receiver decodes to the
  module address. For every other packet the stack with the middleware and the stack without it return
  the same acknowledgement and the same context (ledger, external state, moves, events, calls, requests),
  and the module's own state is returned untouched.
  The acknowledgement / timeout / send callbacks have no code in the module: `IBCMiddleware` embeds the
  wrapped `IBCModule` and `ICS4Wrapper`, and Go promotes their methods. That this is so for the built code is
  the coverage obligation `pin_only_recv_has_code` (regenerated on every run from the method table of the
  type: a promoted method is a compiler-generated wrapper); that the promoted methods hand arguments and
  results through unchanged is Go's embedding rule, checked against a recording fake by the stream.
-/
import Orbiter.Lemmas.Recv
import Orbiter.Step
namespace Orbiter.C07
open Orbiter

/-- Coverage obligation: of all the methods of the middleware type (value and pointer receiver), `OnRecvPacket` is the
only one written in the package; the acknowledgement, timeout and channel-handshake callbacks and the ICS-4 methods
(`SendPacket`, `WriteAcknowledgement`, `GetAppVersion`) are the embedded fields' own, promoted by the compiler. A method
added to the type later — a new place where foreign traffic could be treated differently — breaks this. -/
theorem pin_only_recv_has_code : Gen.middlewareOwnMethods = ["OnRecvPacket"] := by decide

/-- …and the callbacks the property speaks of are all there. -/
theorem pin_callbacks_promoted :
    ∀ m ∈ ["OnAcknowledgementPacket", "OnTimeoutPacket", "SendPacket", "WriteAcknowledgement", "GetAppVersion",
           "OnChanOpenInit", "OnChanOpenTry", "OnChanOpenAck", "OnChanOpenConfirm", "OnChanCloseInit", "OnChanCloseConfirm"],
      m ∈ Gen.middlewareMethods ∧ m ∉ Gen.middlewareOwnMethods := by decide

/-- Coverage obligation: behind the `transfer` port the application wires blockibc around the orbiter middleware around the
ICS-20 module and nothing else — the composition `stackOnRecv` (`Recv.lean`) is written for, and the one the comparison
"with and without the middleware" (`bareOnRecv`) removes exactly one layer of. -/
theorem pin_ibc_stack : Gen.ibcStack = ["blockibc.IBCMiddleware", "entrypoint.IBCMiddleware", "transfer.IBCModule"] := by decide

def orbiterAddressed (cfg : Cfg) (pkt : Packet) : Prop :=
  ∃ d, decFTPD pkt.data = some d ∧ accAddressFromBech32 cfg.hrp d.receiver = some cfg.orbAddr

/-- The adapter's classification is exactly that predicate: it says "not mine" iff the packet is not an
ICS-20 transfer to the orbiter account — whatever the memo contains. -/
theorem c07_classification (wr : Wiring) (pkt : Packet) :
    adaptPacket wr pkt = .ok .notOrbiter ↔ ¬ orbiterAddressed wr.cfg pkt := by
  unfold adaptPacket orbiterAddressed
  cases hd : decFTPD pkt.data with
  | none => simp
  | some d =>
    simp only [Option.some.injEq, exists_eq_left']
    cases hr : accAddressFromBech32 wr.cfg.hrp d.receiver with
    | none => simp
    | some r =>
      simp only [Option.some.injEq]
      by_cases he : r = wr.cfg.orbAddr
      · subst he
        simp only [bne_self_eq_false, Bool.false_eq_true, ↓reduceIte, not_true_eq_false, iff_false]
        intro h
        -- the remaining block ends in `pure (.orbiter …)` or an error: it cannot return `.notOrbiter`
        obtain ⟨p, _, h⟩ := Res.bind_eq_ok.mp h
        cases ha : newIntFromString d.amount with
        | none => simp [ha] at h
        | some amt =>
          simp only [ha, Res.pure_eq, Res.bind_ok] at h
          obtain ⟨dn, _, h⟩ := Res.bind_eq_ok.mp h
          split at h
          · cases h
          · obtain ⟨t, _, h⟩ := Res.bind_eq_ok.mp h
            cases h
      · have : (r != wr.cfg.orbAddr) = true := by simpa using he
        simp [this, he]

/-- **Transparency.** For a packet that is not an orbiter transfer, on channels as ibc-go core assigns
them, the stack with the middleware returns exactly what the stack without it returns: the same
acknowledgement, and the same resulting context — ledger, external state, list of coin movements, events,
external calls, bridge requests — and the module's own state unchanged. This holds in every module state
`o` (pause sets, parameters, statistics) and under every fault oracle. -/
theorem c07_transparent (wr : Wiring) (φ : Faults) (o : OrbState) (c0 : Ctx) (pkt : Packet)
    (hdst : crossChainValid PROTOCOL_IBC pkt.dstChan = true) (hsrc : (pkt.srcPort == "" || pkt.srcChan == "") = false)
    (hno : ¬ orbiterAddressed wr.cfg pkt) :
    stackOnRecv wr φ o c0 pkt = bareOnRecv wr o c0 pkt := by
  have hcl := (c07_classification wr pkt).mpr hno
  have hr : (!Gen.adapterRoutes.contains PROTOCOL_IBC) = false := by decide
  unfold stackOnRecv bareOnRecv
  cases blockibcCheck c0 pkt with
  | err e => rfl
  | panic e => rfl
  | ok u =>
    simp only
    unfold mwOnRecv
    simp only [hdst, Bool.not_true, Bool.false_eq_true, ↓reduceIte, hsrc, hr, hcl]

/-- The module's own state is untouched by foreign traffic. -/
theorem c07_own_state_untouched (wr : Wiring) (φ : Faults) (o : OrbState) (c0 : Ctx) (pkt : Packet)
    (hdst : crossChainValid PROTOCOL_IBC pkt.dstChan = true) (hsrc : (pkt.srcPort == "" || pkt.srcChan == "") = false)
    (hno : ¬ orbiterAddressed wr.cfg pkt) : (stackOnRecv wr φ o c0 pkt).orb = o := by
  rw [c07_transparent wr φ o c0 pkt hdst hsrc hno]
  unfold bareOnRecv
  cases blockibcCheck c0 pkt with
  | err e => rfl
  | panic e => rfl
  | ok u =>
    simp only
    cases ics20Recv wr.cfg c0 pkt <;> rfl

/-- …also after ibc-go core's commit/discard step: the committed worlds coincide. -/
theorem c07_committed (wr : Wiring) (φ : Faults) (w : World) (pkt : Packet)
    (hdst : crossChainValid PROTOCOL_IBC pkt.dstChan = true) (hsrc : (pkt.srcPort == "" || pkt.srcChan == "") = false)
    (hno : ¬ orbiterAddressed wr.cfg pkt) :
    ibcRecv wr φ w pkt =
      (let out := bareOnRecv wr w.orb (ctxOf w) pkt
       if out.ack.isSuccess then out else { ack := out.ack, ctx := ctxOf w, orb := w.orb }) := by
  unfold ibcRecv
  rw [c07_transparent wr φ w.orb (ctxOf w) pkt hdst hsrc hno]

/-- Even without the assumption on the channel identifiers, a packet refused by the middleware's own
entry checks changes nothing: the result context and the module state are the ones before. -/
theorem c07_entry_checks_change_nothing (wr : Wiring) (φ : Faults) (o : OrbState) (c0 : Ctx) (pkt : Packet)
    (h : crossChainValid PROTOCOL_IBC pkt.dstChan = false ∨ (pkt.srcPort == "" || pkt.srcChan == "") = true) :
    (mwOnRecv wr φ o c0 pkt).ctx = c0 ∧ (mwOnRecv wr φ o c0 pkt).orb = o ∧ (mwOnRecv wr φ o c0 pkt).ack.isSuccess = false := by
  unfold mwOnRecv
  rcases h with h | h
  · simp [h, Ack.isSuccess]
  · by_cases h1 : crossChainValid PROTOCOL_IBC pkt.dstChan = true
    · simp [h1, h, Ack.isSuccess]
    · simp [h1, Ack.isSuccess]

/-! ### histories
The chain without the middleware, as a machine over the same operations: receives go to the wrapped
application alone, everything else (governance messages, deposits, environment changes, genesis round
trips) is the same. -/

/-- ibc-go core `RecvPacket` over the stack without the middleware. -/
def bareRecv (wr : Wiring) (w : World) (pkt : Packet) : RecvOut :=
  let out := bareOnRecv wr w.orb (ctxOf w) pkt
  if out.ack.isSuccess then out else { ack := out.ack, ctx := ctxOf w, orb := w.orb }

def stepBare (wr : Wiring) (φ : Faults) (w : World) : Op → Obs × World
  | .recv pkt =>
    let out := bareRecv wr w pkt
    (.recv out.ack out.ctx.moves out.ctx.reqs out.ctx.events out.ctx.calls, out.world)
  | op => step wr φ w op

/-- A packet of foreign traffic on channels as ibc-go core assigns them. -/
def Foreign (wr : Wiring) (pkt : Packet) : Prop :=
  crossChainValid PROTOCOL_IBC pkt.dstChan = true ∧ (pkt.srcPort == "" || pkt.srcChan == "") = false ∧ ¬ orbiterAddressed wr.cfg pkt

/-- Histories, keeping what each operation let the outside observe. -/
def runObs (f : World → Op → Obs × World) (w : World) : List Op → List Obs × World
  | [] => ([], w)
  | op :: ops => let r := f w op; let rest := runObs f r.2 ops; (r.1 :: rest.1, rest.2)

theorem c07_step (wr : Wiring) (φ : Faults) (w : World) (op : Op) (h : ∀ pkt, op = .recv pkt → Foreign wr pkt) :
    step wr φ w op = stepBare wr φ w op := by
  cases op with
  | recv pkt =>
    obtain ⟨h1, h2, h3⟩ := h pkt rfl
    simp only [step, stepBare, bareRecv, c07_committed wr φ w pkt h1 h2 h3]
  | _ => rfl

/-- **Transparency over histories.** Any history of operations — governance messages in any order (so every
pause and parameter state), deposits, environment changes, genesis round trips, and received packets none
of which is an orbiter transfer — leaves the chain with the middleware and the chain without it in the
same world, having shown the same acknowledgements, coin movements, events, external calls and bridge
requests at every step. -/
theorem c07_history (wr : Wiring) (φ : Faults) (ops : List Op) (w : World)
    (h : ∀ pkt, Op.recv pkt ∈ ops → Foreign wr pkt) :
    runObs (step wr φ) w ops = runObs (stepBare wr φ) w ops := by
  induction ops generalizing w with
  | nil => rfl
  | cons op ops ih =>
    simp only [runObs]
    rw [c07_step wr φ w op (fun pkt e => h pkt (by rw [e]; exact List.mem_cons_self))]
    rw [ih _ (fun pkt hm => h pkt (List.mem_cons_of_mem _ hm))]

/-- …and the module's own state after a history made of foreign packets only is the one before it. -/
theorem c07_history_own_state (wr : Wiring) (φ : Faults) (pkts : List Packet) (w : World)
    (h : ∀ pkt ∈ pkts, Foreign wr pkt) :
    (runObs (step wr φ) w (pkts.map Op.recv)).2.orb = w.orb := by
  induction pkts generalizing w with
  | nil => rfl
  | cons pkt pkts ih =>
    simp only [List.map_cons, runObs]
    rw [ih _ (fun p hp => h p (List.mem_cons_of_mem _ hp))]
    obtain ⟨h1, h2, h3⟩ := h pkt List.mem_cons_self
    simp only [step, RecvOut.world]
    unfold ibcRecv
    simp only
    split
    · exact c07_own_state_untouched wr φ w.orb (ctxOf w) pkt h1 h2 h3
    · rfl

/-! ### non-vacuity: the channel hypothesis holds for the identifiers ibc-go assigns -/
example : crossChainValid PROTOCOL_IBC "channel-0" = true ∧ crossChainValid PROTOCOL_IBC "channel-18446744073709551615" = true := by
  decide

end Orbiter.C07
