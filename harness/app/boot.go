// Package app boots the real orbiter simapp in-process (stream S3 of DESIGN.md §4.2) and exposes the
// handful of entry points the line-protocol driver needs. It touches only exported API of /repo.
package app

import (
	"encoding/json"
	"fmt"
	"io"
	"os"
	"sync"
	"time"

	abci "github.com/cometbft/cometbft/abci/types"
	cmtjson "github.com/cometbft/cometbft/libs/json"
	cmtproto "github.com/cometbft/cometbft/proto/tendermint/types"
	cmttypes "github.com/cometbft/cometbft/types"
	dbm "github.com/cosmos/cosmos-db"

	"cosmossdk.io/log"
	sdkmath "cosmossdk.io/math"
	"github.com/cosmos/cosmos-sdk/baseapp"
	"github.com/cosmos/cosmos-sdk/codec"
	"github.com/cosmos/cosmos-sdk/telemetry"
	"github.com/cosmos/cosmos-sdk/testutil/mock"
	simtestutil "github.com/cosmos/cosmos-sdk/testutil/sims"
	sdk "github.com/cosmos/cosmos-sdk/types"
	authtypes "github.com/cosmos/cosmos-sdk/x/auth/types"
	banktypes "github.com/cosmos/cosmos-sdk/x/bank/types"
	transfertypes "github.com/cosmos/ibc-go/v8/modules/apps/transfer/types"
	porttypes "github.com/cosmos/ibc-go/v8/modules/core/05-port/types"
	"github.com/rs/zerolog"

	cctptypes "github.com/circlefin/noble-cctp/x/cctp/types"
	ftftypes "github.com/circlefin/noble-fiattokenfactory/x/fiattokenfactory/types"

	"github.com/noble-assets/orbiter/v2/simapp"
)

const (
	ChainID = "orbiter-1"
	USDC    = "uusdc"
)

var prefixOnce sync.Once

func SetPrefixes() {
	prefixOnce.Do(func() {
		cfg := sdk.GetConfig()
		cfg.SetBech32PrefixForAccount("noble", "noblepub")
		cfg.SetBech32PrefixForValidator("noblevaloper", "noblevaloperpub")
		cfg.SetBech32PrefixForConsensusNode("noblevalcons", "noblevalconspub")
	})
}

// Config is the environment the harness boots; everything not listed is the module default.
type Config struct {
	// Channels: Noble-side channel ids whose escrow accounts are funded.
	Channels []string
	// EscrowDenoms: native denoms escrowed on each channel, each with EscrowAmount.
	EscrowDenoms []string
	EscrowAmount string
	// Balances: extra genesis balances addr(hex)->coins
	Balances map[string]string
	// CCTPDomains: remote domains with a token messenger.
	CCTPDomains []uint32
	BurnLimit   string
	// OrbiterGenesis (optional): raw JSON of the orbiter module genesis.
	OrbiterGenesis json.RawMessage
}

func DefaultConfig() Config {
	return Config{
		Channels:     []string{"channel-0", "channel-1"},
		EscrowDenoms: []string{USDC, "uother"},
		EscrowAmount: "1000000000000000000000000000000",
		CCTPDomains:  []uint32{0, 1, 5},
		BurnLimit:    "1000000000000000000000000",
	}
}

type Env struct {
	App    *simapp.SimApp
	Ctx    sdk.Context
	Cdc    codec.Codec
	Stack  porttypes.IBCModule // blockibc -> orbiter -> ICS-20 as wired by the app
	Cfg    Config
	tmpDir string
}

func (e *Env) Close() {
	if e.tmpDir != "" {
		_ = os.RemoveAll(e.tmpDir)
	}
}

// Logger is the node logger of this process: the no-op logger, or — VERIF_LOGLEVEL=trace|debug|info|warn|error — a real
// one of that level writing to nowhere (what a node configured with that log_level runs with; C19 replays the same history
// under different levels: nothing observable may depend on it).
func Logger() log.Logger {
	lv := os.Getenv("VERIF_LOGLEVEL")
	if lv == "" {
		return log.NewNopLogger()
	}
	l, err := zerolog.ParseLevel(lv)
	if err != nil {
		return log.NewNopLogger()
	}
	return log.NewLogger(io.Discard, log.LevelOption(l))
}

// Telemetry switches the SDK's telemetry on for this process when VERIF_TELEMETRY=1 (a node with `telemetry.enabled = true` in
// app.toml): node configuration, not consensus state — C19 replays the same history with it on and off.
func Telemetry() {
	if os.Getenv("VERIF_TELEMETRY") == "1" {
		_, _ = telemetry.New(telemetry.Config{ServiceName: "verif", Enabled: true, PrometheusRetentionTime: 60})
	}
}

func Boot(cfg Config) (env *Env, err error) {
	defer func() {
		if r := recover(); r != nil {
			err = fmt.Errorf("boot panic: %v", r)
		}
	}()
	SetPrefixes()
	Telemetry()
	dir, err := os.MkdirTemp("", "orbverif")
	if err != nil {
		return nil, err
	}
	a, err := simapp.NewSimApp(
		Logger(), dbm.NewMemDB(), nil, true,
		simtestutil.NewAppOptionsWithFlagHome(dir),
		baseapp.SetChainID(ChainID),
	)
	if err != nil {
		return nil, err
	}
	cdc := a.OrbiterKeeper.Codec()

	privVal := mock.NewPV()
	pubKey, err := privVal.GetPubKey()
	if err != nil {
		return nil, err
	}
	validator := cmttypes.NewValidator(pubKey, 1)
	valSet := cmttypes.NewValidatorSet([]*cmttypes.Validator{validator})

	genAcc := authtypes.NewBaseAccount(sdk.AccAddress(make([]byte, 20)), nil, 0, 0)
	genAcc.Address = sdk.AccAddress([]byte("genesis-account-0001")).String()

	escAmt, ok := sdkmath.NewIntFromString(cfg.EscrowAmount)
	if !ok {
		return nil, fmt.Errorf("bad escrow amount")
	}

	var balances []banktypes.Balance
	balances = append(balances, banktypes.Balance{
		Address: genAcc.Address,
		Coins:   sdk.NewCoins(sdk.NewCoin("stake", sdkmath.NewInt(1_000_000_000))),
	})
	totalEscrow := sdk.NewCoins()
	for _, ch := range cfg.Channels {
		esc := transfertypes.GetEscrowAddress("transfer", ch)
		coins := sdk.NewCoins()
		for _, d := range cfg.EscrowDenoms {
			coins = coins.Add(sdk.NewCoin(d, escAmt))
		}
		balances = append(balances, banktypes.Balance{Address: esc.String(), Coins: coins})
		totalEscrow = totalEscrow.Add(coins...)
	}
	for hexAddr, coinsStr := range cfg.Balances {
		addr, err := sdk.AccAddressFromHexUnsafe(hexAddr)
		if err != nil {
			return nil, err
		}
		coins, err := sdk.ParseCoinsNormalized(coinsStr)
		if err != nil {
			return nil, err
		}
		balances = append(balances, banktypes.Balance{Address: addr.String(), Coins: coins})
	}

	genesis := a.DefaultGenesis()
	genesis, err = simtestutil.GenesisStateWithValSet(cdc, genesis, valSet,
		[]authtypes.GenesisAccount{genAcc}, balances...)
	if err != nil {
		return nil, err
	}

	// bank: denom metadata for uusdc
	var bankGen banktypes.GenesisState
	cdc.MustUnmarshalJSON(genesis[banktypes.ModuleName], &bankGen)
	bankGen.DenomMetadata = append(bankGen.DenomMetadata, banktypes.Metadata{
		Base: USDC, Display: "usdc", Name: "usdc", Symbol: "USDC",
		DenomUnits: []*banktypes.DenomUnit{{Denom: USDC, Exponent: 0}, {Denom: "usdc", Exponent: 6}},
	})
	genesis[banktypes.ModuleName] = cdc.MustMarshalJSON(&bankGen)

	// fiat-tokenfactory
	var ftfGen ftftypes.GenesisState
	cdc.MustUnmarshalJSON(genesis[ftftypes.ModuleName], &ftfGen)
	ftfGen.MintingDenom = &ftftypes.MintingDenom{Denom: USDC}
	ftfGen.Paused = &ftftypes.Paused{Paused: false}
	owner := sdk.AccAddress([]byte("ftf-owner-account-01")).String()
	ftfGen.Owner = &ftftypes.Owner{Address: owner}
	ftfGen.Pauser = &ftftypes.Pauser{Address: owner}
	ftfGen.Blacklister = &ftftypes.Blacklister{Address: owner}
	ftfGen.MasterMinter = &ftftypes.MasterMinter{Address: owner}
	ftfGen.MintersList = []ftftypes.Minters{{
		Address:   cctptypes.ModuleAddress.String(),
		Allowance: sdk.NewCoin(USDC, escAmt),
	}}
	genesis[ftftypes.ModuleName] = cdc.MustMarshalJSON(&ftfGen)

	// cctp
	var cctpGen cctptypes.GenesisState
	cdc.MustUnmarshalJSON(genesis[cctptypes.ModuleName], &cctpGen)
	cctpGen.Owner = owner
	cctpGen.Pauser = owner
	cctpGen.TokenController = owner
	cctpGen.AttesterManager = owner
	limit, ok := sdkmath.NewIntFromString(cfg.BurnLimit)
	if !ok {
		return nil, fmt.Errorf("bad burn limit")
	}
	cctpGen.PerMessageBurnLimitList = []cctptypes.PerMessageBurnLimit{{Denom: USDC, Amount: limit}}
	cctpGen.BurningAndMintingPaused = &cctptypes.BurningAndMintingPaused{Paused: false}
	cctpGen.SendingAndReceivingMessagesPaused = &cctptypes.SendingAndReceivingMessagesPaused{Paused: false}
	cctpGen.MaxMessageBodySize = &cctptypes.MaxMessageBodySize{Amount: 8000}
	cctpGen.NextAvailableNonce = &cctptypes.Nonce{Nonce: 0}
	cctpGen.SignatureThreshold = &cctptypes.SignatureThreshold{Amount: 1}
	for _, d := range cfg.CCTPDomains {
		addr := make([]byte, 32)
		addr[31] = byte(d + 1)
		cctpGen.TokenMessengerList = append(cctpGen.TokenMessengerList,
			cctptypes.RemoteTokenMessenger{DomainId: d, Address: addr})
	}
	genesis[cctptypes.ModuleName] = cdc.MustMarshalJSON(&cctpGen)

	// transfer: total escrow bookkeeping
	var trGen transfertypes.GenesisState
	cdc.MustUnmarshalJSON(genesis[transfertypes.ModuleName], &trGen)
	trGen.TotalEscrowed = totalEscrow
	genesis[transfertypes.ModuleName] = cdc.MustMarshalJSON(&trGen)

	if len(cfg.OrbiterGenesis) > 0 {
		genesis["orbiter"] = cfg.OrbiterGenesis
	}

	stateBytes, err := cmtjson.MarshalIndent(genesis, "", " ")
	if err != nil {
		return nil, err
	}
	if _, err = a.InitChain(&abci.RequestInitChain{
		ChainId:         ChainID,
		Validators:      []abci.ValidatorUpdate{},
		ConsensusParams: simtestutil.DefaultConsensusParams,
		AppStateBytes:   stateBytes,
	}); err != nil {
		return nil, err
	}
	if _, err = a.FinalizeBlock(&abci.RequestFinalizeBlock{
		Height:             1,
		Hash:               a.LastCommitID().Hash,
		NextValidatorsHash: valSet.Hash(),
		Time:               time.Unix(1_700_000_000, 0).UTC(),
	}); err != nil {
		return nil, err
	}
	if _, err = a.Commit(); err != nil {
		return nil, err
	}
	header := cmtproto.Header{ChainID: ChainID, Height: 2, Time: time.Unix(1_700_000_006, 0).UTC()}
	ctx := a.BaseApp.NewUncachedContext(false, header)

	stack, found := a.IBCKeeper.Router.GetRoute(transfertypes.ModuleName)
	if !found {
		return nil, fmt.Errorf("no transfer route")
	}
	return &Env{App: a, Ctx: ctx, Cdc: cdc, Stack: stack, Cfg: cfg, tmpDir: dir}, nil
}
