/-
  Orbiter.Expect — the message layouts the model was written against (hand-kept; compared with the descriptors of the built
  code by `pin_payload_fields` (C15) and `pin_genesis_fields` (C17)): for every message of the payload and of the genesis
  document, its fields as (proto name, JSON name, kind). The decoders of `Jsonpb.lean` take exactly these names
  (`takeField fs "<proto name>" "<JSON name>"`), `Encode.lean` writes the proto names, and `Admin.lean`'s `Genesis` has one
  component per genesis field. A field added, renamed, re-typed or given another `json_name` is a payload or a genesis
  document the model does not describe any more.
-/
namespace Orbiter

def modelPayloadFields : List (String × List (String × String × String)) := [("noble.orbiter.controller.action.v2.FeeAttributes", [("fees_info", "feesInfo", "repeated message:noble.orbiter.controller.action.v2.FeeInfo")]),
  ("noble.orbiter.controller.action.v2.FeeInfo", [("recipient", "recipient", "string"), ("basis_points", "basisPoints", "message:noble.orbiter.controller.action.v2.FeeInfo.BasisPoints|oneof=fee_type"), ("amount", "amount", "message:noble.orbiter.controller.action.v2.FeeInfo.Amount|oneof=fee_type")]),
  ("noble.orbiter.controller.action.v2.FeeInfo.Amount", [("value", "value", "string")]),
  ("noble.orbiter.controller.action.v2.FeeInfo.BasisPoints", [("value", "value", "uint32")]),
  ("noble.orbiter.controller.forwarding.v1.CCTPAttributes", [("destination_domain", "destinationDomain", "uint32"), ("mint_recipient", "mintRecipient", "bytes"), ("destination_caller", "destinationCaller", "bytes")]),
  ("noble.orbiter.controller.forwarding.v1.HypAttributes", [("token_id", "tokenId", "bytes"), ("destination_domain", "destinationDomain", "uint32"), ("recipient", "recipient", "bytes"), ("custom_hook_id", "customHookId", "bytes"), ("custom_hook_metadata", "customHookMetadata", "string"), ("gas_limit", "gasLimit", "string"), ("max_fee", "maxFee", "message:cosmos.base.v1beta1.Coin")]),
  ("noble.orbiter.controller.forwarding.v1.InternalAttributes", [("recipient", "recipient", "string")]),
  ("noble.orbiter.core.v1.Action", [("id", "id", "enum:noble.orbiter.core.v1.ActionID"), ("attributes", "attributes", "message:google.protobuf.Any")]),
  ("noble.orbiter.core.v1.Forwarding", [("protocol_id", "protocolId", "enum:noble.orbiter.core.v1.ProtocolID"), ("attributes", "attributes", "message:google.protobuf.Any"), ("passthrough_payload", "passthroughPayload", "bytes")]),
  ("noble.orbiter.core.v1.Payload", [("pre_actions", "preActions", "repeated message:noble.orbiter.core.v1.Action"), ("forwarding", "forwarding", "message:noble.orbiter.core.v1.Forwarding")]),
  ("noble.orbiter.core.v1.PayloadWrapper", [("orbiter", "orbiter", "message:noble.orbiter.core.v1.Payload")])]

def modelGenesisFields : List (String × List (String × String × String)) := [("noble.orbiter.component.adapter.v1.GenesisState", [("params", "params", "message:noble.orbiter.component.adapter.v1.Params")]),
  ("noble.orbiter.component.adapter.v1.Params", [("max_passthrough_payload_size", "maxPassthroughPayloadSize", "uint32")]),
  ("noble.orbiter.component.dispatcher.v1.AmountDispatched", [("incoming", "incoming", "string"), ("outgoing", "outgoing", "string")]),
  ("noble.orbiter.component.dispatcher.v1.DispatchCountEntry", [("source_id", "sourceId", "message:noble.orbiter.core.v1.CrossChainID"), ("destination_id", "destinationId", "message:noble.orbiter.core.v1.CrossChainID"), ("count", "count", "uint64")]),
  ("noble.orbiter.component.dispatcher.v1.DispatchedAmountEntry", [("source_id", "sourceId", "message:noble.orbiter.core.v1.CrossChainID"), ("destination_id", "destinationId", "message:noble.orbiter.core.v1.CrossChainID"), ("denom", "denom", "string"), ("amount_dispatched", "amountDispatched", "message:noble.orbiter.component.dispatcher.v1.AmountDispatched")]),
  ("noble.orbiter.component.dispatcher.v1.GenesisState", [("dispatched_amounts", "dispatchedAmounts", "repeated message:noble.orbiter.component.dispatcher.v1.DispatchedAmountEntry"), ("dispatched_counts", "dispatchedCounts", "repeated message:noble.orbiter.component.dispatcher.v1.DispatchCountEntry")]),
  ("noble.orbiter.component.executor.v1.GenesisState", [("paused_action_ids", "pausedActionIds", "repeated enum:noble.orbiter.core.v1.ActionID")]),
  ("noble.orbiter.component.forwarder.v1.GenesisState", [("paused_protocol_ids", "pausedProtocolIds", "repeated enum:noble.orbiter.core.v1.ProtocolID"), ("paused_cross_chain_ids", "pausedCrossChainIds", "repeated message:noble.orbiter.core.v1.CrossChainID")]),
  ("noble.orbiter.core.v1.CrossChainID", [("protocol_id", "protocolId", "enum:noble.orbiter.core.v1.ProtocolID"), ("counterparty_id", "counterpartyId", "string")]),
  ("noble.orbiter.v1.GenesisState", [("adapter_genesis", "adapterGenesis", "message:noble.orbiter.component.adapter.v1.GenesisState"), ("dispatcher_genesis", "dispatcherGenesis", "message:noble.orbiter.component.dispatcher.v1.GenesisState"), ("forwarder_genesis", "forwarderGenesis", "message:noble.orbiter.component.forwarder.v1.GenesisState"), ("executor_genesis", "executorGenesis", "message:noble.orbiter.component.executor.v1.GenesisState")])]

/-- Everything the module can ask of another module: the method sets of its expected-keeper interfaces, each with the contract of
`Recv.lean` that stands for it.  A method added here is a call the model has no contract for (a helper with other semantics —
`SendCoinsFromModuleToAccount`, `MintCoins`, `DelegateCoins` — cannot be called without appearing in one of these interfaces).

| interface method                                  | contract in the model                                              |
|---------------------------------------------------|--------------------------------------------------------------------|
| bank `GetBalance`                                 | `Ledger.bal` (read in the sweep and in the forwarder's pre-check)  |
| bank `SendCoins` (adapter, fee)                   | `Ctx.send` (`Recv.lean`): sweep, fee payments (`payFees`)          |
| CCTP `DepositForBurn` / `DepositForBurnWithCaller`| `cctpDepositForBurn`                                               |
| CCTP `ReplaceDepositForBurn`                      | `Admin.lean` `replaceRequest` (request only; CCTP refuses)         |
| warp `RemoteTransfer` / `Token`                   | `warpRemoteTransfer`, `lookupTok`                                  |
| bank `Msg/Send`                                   | `bankMsgSend`                                                      |
-/
def modelExternalSurface : List (String × List String) := [("action.BankKeeperFee", ["SendCoins func(context.Context, types.AccAddress, types.AccAddress, types.Coins) error"]),
  ("forwarding.CCTPMsgServer", ["DepositForBurn func(context.Context, *types.MsgDepositForBurn) (*types.MsgDepositForBurnResponse, error)", "DepositForBurnWithCaller func(context.Context, *types.MsgDepositForBurnWithCaller) (*types.MsgDepositForBurnWithCallerResponse, error)", "ReplaceDepositForBurn func(context.Context, *types.MsgReplaceDepositForBurn) (*types.MsgReplaceDepositForBurnResponse, error)"]),
  ("forwarding.HyperlaneHandler", ["RemoteTransfer func(context.Context, *types.MsgRemoteTransfer) (*types.MsgRemoteTransferResponse, error)", "Token func(context.Context, *types.QueryTokenRequest) (*types.QueryTokenResponse, error)"]),
  ("forwarding.InternalHandler", ["Send func(context.Context, *types.MsgSend) (*types.MsgSendResponse, error)"]),
  ("types.BankKeeper", ["GetBalance func(context.Context, types.AccAddress, string) types.Coin", "SendCoins func(context.Context, types.AccAddress, types.AccAddress, types.Coins) error"]),
  ("types.BankKeeperAdapter", ["GetBalance func(context.Context, types.AccAddress, string) types.Coin", "SendCoins func(context.Context, types.AccAddress, types.AccAddress, types.Coins) error"]),
  ("types.BankKeeperForwarder", ["GetBalance func(context.Context, types.AccAddress, string) types.Coin"])]

/-- The store prefixes of the module's collections: the model keeps one independent list per collection, which is what the store
gives only as long as no prefix is a prefix of another. -/
def modelStorePrefixes : List (String × List UInt8) := [("adapterParams", [0x28]), ("dispatchedAmounts", [0x1e]), ("dispatchedAmountsByDstChain", [0x20]), ("dispatchedAmountsByDstProto", [0x1f]), ("dispatchedCounts", [0x21]), ("dispatchedCountsByDstProto", [0x22]), ("pausedActions", [0x14]), ("pausedCrossChains", [0x0a]), ("pausedProtocols", [0x0b])]

end Orbiter
