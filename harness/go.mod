module verifharness

go 1.24
