/-
  C14 — The receive path never panics on untrusted input.
  On the chain's wiring, for arbitrary packet bytes, identifiers, memo contents and attribute values, in
  every module state, ledger and environment and under every fault oracle, the stack returns an
  acknowledgement; the only abort the model can exhibit is ibc-go's own invariant check on its total-escrow
  bookkeeping (`ics20:total-escrow-negative`), which is not reachable while that bookkeeping covers the
  escrow accounts (ibc-go's invariant, outside the orbiter).
  The parser part holds by construction for the leaf decoders (they live in the panic-free `Dec` monad) and
  by `decFee_noPanic` for the one generated-marshaller panic, excluded by the null-in-array pre-check.
-/
import Orbiter.Lemmas.NoPanic
import Orbiter.Lemmas.Reach
import Orbiter.Props.C04
import Orbiter.Props.C16
import Orbiter.Props.C11
namespace Orbiter.C14
open Orbiter

/-- The parser: arbitrary bytes as memo never panic. -/
theorem c14_parser_never_panics (π : OneofOrder) (memo : Bytes) (s : String) : parsePayload π memo ≠ .panic s :=
  fun h => parsePayload_noPanic π memo s h

/-- Malformed orbiter payloads addressed to the orbiter account are refused with an error: the adapter's
result for an orbiter-addressed packet whose memo does not parse is the parser's error. -/
theorem c14_malformed_refused (wr : Wiring) (pkt : Packet) (d : FTPD) (e : String)
    (hd : decFTPD pkt.data = some d) (hr : accAddressFromBech32 wr.cfg.hrp d.receiver = some wr.cfg.orbAddr)
    (hp : parsePayload wr.π (strBytes d.memo) = .err e) : adaptPacket wr pkt = .err e := by
  unfold adaptPacket
  simp [hd, hr, hp]

theorem adaptPacket_noPanic (wr : Wiring) (pkt : Packet) : (adaptPacket wr pkt).NoPanic := by
  unfold adaptPacket
  cases decFTPD pkt.data with
  | none => exact Res.PanicsIn.ok _
  | some d =>
    simp only
    cases accAddressFromBech32 wr.cfg.hrp d.receiver with
    | none => exact Res.PanicsIn.ok _
    | some r =>
      simp only
      apply Res.PanicsIn.ite
      · intro _; exact Res.PanicsIn.ok _
      · intro _
        refine Res.PanicsIn.bind (P := fun _ => False) (parsePayload_noPanic _ _) ?_
        intro p _
        cases newIntFromString d.amount with
        | none => simp only [Res.bind_err]; exact Res.PanicsIn.err _
        | some amt =>
          simp only [Res.pure_eq, Res.bind_ok]
          refine Res.PanicsIn.bind (P := fun _ => False) ?_ ?_
          · unfold recoverNativeDenom; np_leaves
          · intro dn _
            apply Res.PanicsIn.guard
            intro _
            refine Res.PanicsIn.bind (P := fun _ => False) ?_ (fun _ _ => Res.PanicsIn.pure _)
            apply Res.PanicsIn.mapErr
            unfold newTransferAttrs
            exact Res.PanicsIn.bind (TransferAttrs.validate_noPanic _) (fun _ _ => Res.PanicsIn.pure _)

theorem call_noPanic (φ : Faults) (c : Ctx) (site : String) : (Ctx.call φ c site).NoPanic := by
  unfold Ctx.call; np_leaves

theorem send_noPanic (c : Ctx) (a b : Addr) (d tag : String) (n : Nat) : (c.send a b d n tag).NoPanic := by
  unfold Ctx.send; np_leaves

theorem burn_noPanic (c : Ctx) (a : Addr) (d tag : String) (n : Nat) : (c.burn a d n tag).NoPanic := by
  unfold Ctx.burn; np_leaves

theorem emit_noPanic (φ : Faults) (c : Ctx) (ev : String) : (c.emit φ ev).NoPanic := by
  unfold Ctx.emit
  exact Res.PanicsIn.bind (call_noPanic _ _ _) (fun _ _ => Res.PanicsIn.pure _)

theorem hook_noPanic (wr : Wiring) (φ : Faults) (o : OrbState) (c : Ctx) (t : TransferAttrs) (p : Payload) :
    (beforeTransferHook wr φ o c t p).NoPanic := by
  unfold beforeTransferHook
  simp only
  apply Res.PanicsIn.guard
  intro _
  apply Res.PanicsIn.ite
  · intro _; exact Res.PanicsIn.pure _
  · intro _
    exact Res.PanicsIn.bind (call_noPanic _ _ _) (fun _ _ => send_noPanic _ _ _ _ _ _)

/-- The panics of ibc-go's transfer module itself in the modelled path: `sdk.NewCoin` on a denomination the
bank would not accept, and its total-escrow invariant. -/
def ibcGoPanic (s : String) : Prop := s = "ics20:total-escrow-negative" ∨ s = "ics20:NewCoin"

theorem ics20_panics_only_ibcgo (cfg : Cfg) (c : Ctx) (pkt : Packet) : (ics20Recv cfg c pkt).PanicsIn ibcGoPanic := by
  unfold ics20Recv
  cases decFTPD pkt.data with
  | none => exact Res.PanicsIn.err _
  | some d =>
    simp only
    cases newIntFromString d.amount with
    | none => simp only [Res.bind_err]; exact Res.PanicsIn.err _
    | some amt =>
      simp only [Res.pure_eq, Res.bind_ok]
      apply Res.PanicsIn.guard; intro _
      apply Res.PanicsIn.guard; intro _
      apply Res.PanicsIn.guard; intro _
      apply Res.PanicsIn.guard; intro _
      apply Res.PanicsIn.guard; intro _
      cases accAddressFromBech32 cfg.hrp d.receiver with
      | none => simp only [Res.bind_err]; exact Res.PanicsIn.err _
      | some r =>
        simp only [Res.bind_ok]
        apply Res.PanicsIn.ite
        · intro _
          refine Res.PanicsIn.bind (P := ibcGoPanic) ?_ ?_
          · intro s h
            unfold newCoin at h
            split at h
            · cases h
            · simp only [Res.panic.injEq] at h; exact Or.inr h.symm
          · intro _ _
            apply Res.PanicsIn.guard; intro _
            refine Res.PanicsIn.bind (P := ibcGoPanic) ((send_noPanic _ _ _ _ _ _).mono (fun _ h => h.elim)) ?_
            intro c1 _
            apply Res.PanicsIn.ite
            · intro _ s h
              simp only [Res.panic.injEq] at h; exact Or.inl h.symm
            · intro _; exact Res.PanicsIn.pure _
        · intro _
          apply Res.PanicsIn.ite
          · intro _; exact Res.PanicsIn.err _
          · intro _; exact (send_noPanic _ _ _ _ _ _).mono (fun _ h => h.elim)

/-- For a packet the adapter accepted as an orbiter transfer, `sdk.NewCoin` inside ICS-20 cannot panic either
(the adapter validated the very coin ICS-20 builds): the only abort left is ibc-go's total-escrow invariant. -/
theorem ics20_orbiter_packet_only_escrow (wr : Wiring) (c : Ctx) (pkt : Packet) (t : TransferAttrs) (p : Payload)
    (ha : adaptPacket wr pkt = .ok (.orbiter t p)) :
    (ics20Recv wr.cfg c pkt).PanicsIn (· = "ics20:total-escrow-negative") := by
  obtain ⟨_, _, _, _, d, hd, hamt, hr⟩ := C12.c12_source_from_packet wr pkt t p ha
  obtain ⟨h1, h2, h3⟩ := (C16.c16_accept_iff _ _ _ _).mp hr
  -- the adapter validated the coin
  have hcoin : coinValid t.srcDenom t.srcAmount = true := by
    unfold adaptPacket at ha
    simp only [hd] at ha
    cases hrr : accAddressFromBech32 wr.cfg.hrp d.receiver with
    | none => simp [hrr] at ha
    | some r =>
      simp only [hrr] at ha
      split at ha
      · cases ha
      · obtain ⟨p', _, ha⟩ := Res.bind_eq_ok.mp ha
        simp only [hamt, Res.pure_eq, Res.bind_ok, hr] at ha
        split at ha
        · cases ha
        · rename_i hc
          simpa using hc
  unfold ics20Recv
  simp only [hd, hamt, Res.pure_eq, Res.bind_ok]
  apply Res.PanicsIn.guard; intro _
  apply Res.PanicsIn.guard; intro _
  apply Res.PanicsIn.guard; intro _
  apply Res.PanicsIn.guard; intro _
  apply Res.PanicsIn.guard; intro _
  cases accAddressFromBech32 wr.cfg.hrp d.receiver with
  | none => simp only [Res.bind_err]; exact Res.PanicsIn.err _
  | some r =>
    simp only [Res.bind_ok, h1, ↓reduceIte]
    have hden : ibcDenom wr.cfg (d.denom.drop (denomPrefix pkt.srcPort pkt.srcChan).length).toString = t.srcDenom := by
      unfold ibcDenom
      rw [← h2]
      simp [h3]
    rw [hden]
    refine Res.PanicsIn.bind (P := (· = "ics20:total-escrow-negative")) ?_ ?_
    · unfold newCoin; rw [hcoin]; exact Res.PanicsIn.ok _
    · intro _ _
      apply Res.PanicsIn.guard; intro _
      refine Res.PanicsIn.bind (P := (· = "ics20:total-escrow-negative")) ((send_noPanic _ _ _ _ _ _).mono (fun _ h => h.elim)) ?_
      intro c1 _
      apply Res.PanicsIn.ite
      · intro _ s h
        simp only [Res.panic.injEq] at h; exact h.symm
      · intro _; exact Res.PanicsIn.pure _

/-! ### actions -/

theorem computeFeeAmount_noPanic (A : Int) (b : Nat) : (computeFeeAmount A b).NoPanic := by
  unfold computeFeeAmount; np_leaves

theorem feeEntryAmount_noPanic {hrp : String} {A : Int} {f : FeeInfo} (hv : FeeInfo.validate hrp f = .ok ()) :
    (feeEntryAmount A f).NoPanic := by
  unfold feeEntryAmount
  obtain ⟨_, hct, _⟩ := Res.bind_eq_ok.mp hv
  unfold FeeInfo.checkType at hct
  cases hft : f.feeType with
  | unset => simp [hft] at hct
  | bps v => simp only; exact computeFeeAmount_noPanic A v
  | amount s =>
    simp only [hft] at hct ⊢
    cases hs : newIntFromString s with
    | none => simp [hs] at hct
    | some i => exact Res.PanicsIn.ok _

theorem computeFees_noPanic (hrp : String) (A : Int) (d : String) (hd : validDenom d = true) (infos : List FeeInfo)
    (hv : ∀ f ∈ infos, FeeInfo.validate hrp f = .ok ()) (acc : FeesToDistribute) :
    (computeFees hrp A d infos acc).NoPanic := by
  induction infos generalizing acc with
  | nil => exact Res.PanicsIn.ok _
  | cons f rest ih =>
    simp only [computeFees]
    refine Res.PanicsIn.bind (P := fun _ => False) (feeEntryAmount_noPanic (hv f List.mem_cons_self)) ?_
    intro a _
    have ihr := ih (fun g hg => hv g (List.mem_cons_of_mem _ hg))
    apply Res.PanicsIn.ite
    · intro hpos
      refine Res.PanicsIn.bind (P := fun _ => False) ?_ ?_
      · rw [C04.newCoin_ok hd (Int.le_of_lt hpos)]; exact Res.PanicsIn.ok _
      · intro _ _
        apply Res.PanicsIn.ite
        · intro _; exact Res.PanicsIn.err _
        · intro _; exact ihr _
    · intro _; exact ihr _

theorem payFees_noPanic (φ : Faults) (orb : Addr) (d : String) (l : List (Bytes × Int)) (c : Ctx) : (payFees φ orb d l c).NoPanic := by
  induction l generalizing c with
  | nil => exact Res.PanicsIn.ok _
  | cons v rest ih =>
    simp only [payFees]
    exact Res.PanicsIn.bind (call_noPanic _ _ _) (fun _ _ => Res.PanicsIn.bind (send_noPanic _ _ _ _ _ _) (fun c2 _ => ih c2))

theorem feeController_noPanic (cfg : Cfg) (φ : Faults) (c : Ctx) (t : TransferAttrs) (a : Action) (ht : t.validate = .ok ()) :
    (feeController cfg φ c t a).NoPanic := by
  obtain ⟨_, _, _, hcv, _⟩ := transfer_validate_ok ht
  have hden : validDenom t.dstDenom = true := by simp only [coinValid, Bool.and_eq_true] at hcv; exact hcv.1
  unfold feeController
  simp only
  split
  case h_2 => simp only [Res.bind_err]; exact Res.PanicsIn.err _
  case h_3 => simp only [Res.bind_err]; exact Res.PanicsIn.err _
  rename_i infos _
  simp only [Res.pure_eq, Res.bind_ok]
  cases hval : validateFeeAttrs cfg.hrp infos with
  | err e => simp only [Res.mapErr, Res.bind_err]; exact Res.PanicsIn.err _
  | panic e => exact (validateFeeAttrs_noPanic cfg.hrp infos e hval).elim
  | ok u =>
    simp only [Res.mapErr, Res.bind_ok]
    have hall : ∀ f ∈ infos, FeeInfo.validate cfg.hrp f = .ok () := by
      simp only [validateFeeAttrs, Res.guard_bind_eq_ok] at hval
      exact fun f hf => Res.allM_ok hval.2 f hf
    refine Res.PanicsIn.bind (P := fun _ => False) (computeFees_noPanic _ _ _ hden infos hall _) ?_
    intro fees _
    apply Res.PanicsIn.guard
    intro _
    refine Res.PanicsIn.bind (P := fun _ => False) (payFees_noPanic _ _ _ _ _) ?_
    intro c1 _
    exact Res.PanicsIn.bind (emit_noPanic _ _ _) (fun _ _ => Res.PanicsIn.pure _)

theorem executorHandle_noPanic (cfg : Cfg) (π : OneofOrder) (φ : Faults) (o : OrbState) (c : Ctx) (t : TransferAttrs) (a : Action) :
    (executorHandle (appWiring cfg π) φ o c t a).NoPanic := by
  unfold executorHandle
  cases hv : (a.validate >>= fun _ => t.validate) with
  | err e => simp only [Res.mapErr, Res.bind_err]; exact Res.PanicsIn.err _
  | panic e =>
    exact ((Res.PanicsIn.bind (Action.validate_noPanic a) (fun _ _ => TransferAttrs.validate_noPanic t)) e hv).elim
  | ok u =>
    obtain ⟨_, _, ht⟩ := Res.bind_eq_ok.mp hv
    simp only [Res.mapErr, Res.bind_ok]
    apply Res.PanicsIn.guard
    intro _
    simp only [appWiring, appActionRouter]
    split
    · exact Res.PanicsIn.err _
    · rename_i ctl hctl
      split at hctl
      · simp only [Option.some.injEq] at hctl; subst hctl
        cases u; exact feeController_noPanic cfg φ c t a ht
      · cases hctl

theorem dispatchActions_noPanic (cfg : Cfg) (π : OneofOrder) (φ : Faults) (o : OrbState) (acts : List Action) (c : Ctx) (t : TransferAttrs) :
    (dispatchActions (appWiring cfg π) φ o acts c t).NoPanic := by
  induction acts generalizing c t with
  | nil => exact Res.PanicsIn.ok _
  | cons x rest ih =>
    simp only [dispatchActions]
    refine Res.PanicsIn.bind (P := fun _ => False) (executorHandle_noPanic cfg π φ o c t x) ?_
    intro r _
    obtain ⟨c1, t1⟩ := r
    exact ih c1 t1

/-! ### forwarding -/

theorem cctpDepositForBurn_noPanic (cfg : Cfg) (c : Ctx) (amount : Int) (domain : Nat) (mint caller : Bytes) (tok : String) :
    (cctpDepositForBurn cfg c amount domain mint tok caller).NoPanic := by
  unfold cctpDepositForBurn
  simp only
  apply Res.PanicsIn.guard; intro _
  apply Res.PanicsIn.guard; intro _
  apply Res.PanicsIn.guard; intro _
  apply Res.PanicsIn.guard; intro _
  apply Res.PanicsIn.guard; intro _
  apply Res.PanicsIn.guard; intro _
  refine Res.PanicsIn.bind (P := fun _ => False) (send_noPanic _ _ _ _ _ _) ?_
  intro c1 _
  apply Res.PanicsIn.guard; intro _
  apply Res.PanicsIn.guard; intro _
  apply Res.PanicsIn.guard; intro _
  refine Res.PanicsIn.bind (P := fun _ => False) (send_noPanic _ _ _ _ _ _) ?_
  intro c2 _
  refine Res.PanicsIn.bind (P := fun _ => False) (burn_noPanic _ _ _ _ _) ?_
  intro c3 _
  apply Res.PanicsIn.guard; intro _
  apply Res.PanicsIn.guard; intro _
  apply Res.PanicsIn.guard; intro _
  exact Res.PanicsIn.pure _

theorem hookFor_noPanic (e : ExtState) (h : Bytes) : (hookFor e h).NoPanic := by
  unfold hookFor
  split
  · exact Res.PanicsIn.pure _
  · split
    · exact Res.PanicsIn.pure _
    · exact Res.PanicsIn.err _

/-- The gas paymasters of the environment are configured so that a gas limit of 64 bits — or a router's own default gas — keeps
their arithmetic (`(gas + overhead) · price · rate`, in `math.Int`) within 256 bits. A configuration for which this fails makes the
Hyperlane module panic on ordinary transfers of its own users too; it is set by the paymaster's owner, not by a payload. -/
def IgpSane (e : ExtState) : Prop :=
  ∀ dn dom rate price overhead, Hook.igp dn dom rate price overhead ∈ e.hooks →
    ∀ g : Nat, (g < 18446744073709551616 ∨ ∃ r ∈ e.hypRouters, r.2.2 = g) →
      g + overhead < pow2_256 ∧ (g + overhead) * price < pow2_256 ∧ (g + overhead) * price * rate < pow2_256

theorem IgpSane.of_eq {e e' : ExtState} (h : IgpSane e) (h1 : e'.hooks = e.hooks) (h2 : e'.hypRouters = e.hypRouters) : IgpSane e' := by
  intro dn dom rate price overhead hm g hg
  rw [h1] at hm
  rw [h2] at hg
  exact h dn dom rate price overhead hm g hg

theorem lookupRouter_mem {rs : List (Bytes × Nat × Nat)} {id : Bytes} {dom g : Nat} (h : lookupRouter rs id dom = some g) :
    ∃ r ∈ rs, r.2.2 = g := by
  unfold lookupRouter at h
  cases hf : rs.find? (fun r => internalId r.1 == internalId id && r.2.1 == dom) with
  | none => simp [hf] at h
  | some r =>
    simp only [hf, Option.map_some, Option.some.injEq] at h
    exact ⟨r, List.mem_of_find?_eq_some hf, h⟩

theorem overflows256_natCast (n : Nat) (h : n < pow2_256) : overflows256 (n : Int) = false := by
  simp only [overflows256, Int.natAbs_natCast, decide_eq_false_iff_not, Nat.not_le]
  exact h

/-- The warp module panics on an invalid max-fee coin, and its gas paymaster on arithmetic beyond 256 bits; the attribute
validation excludes the first, and — with the gas limit bounded by it — a sane paymaster configuration the second. -/
theorem warpRemoteTransfer_noPanic (cfg : Cfg) (c : Ctx) (token hook : Bytes) (domain : Nat) (amount gas feeAmt : Int) (feeDenom : String)
    (hfee : (decide (feeAmt < 0) || (feeAmt != 0 && !validDenom feeDenom)) = false)
    (hgas : 0 ≤ gas ∧ gas < 18446744073709551616) (hsane : IgpSane c.ext) :
    (warpRemoteTransfer cfg c token domain amount gas feeDenom feeAmt hook).NoPanic := by
  unfold warpRemoteTransfer
  simp only
  cases lookupTok c.ext.hypTokens token with
  | none => simp only [Res.bind_err]; exact Res.PanicsIn.err _
  | some origin =>
    simp only [Res.pure_eq, Res.bind_ok]
    refine Res.PanicsIn.bind (P := fun _ => False) (send_noPanic _ _ _ _ _ _) ?_
    intro c1 hc1
    have hext : c1.ext = c.ext := C11.send_ext hc1
    cases hr : lookupRouter c1.ext.hypRouters token domain with
    | none => simp only [Res.bind_err]; exact Res.PanicsIn.err _
    | some rgas =>
      simp only [Res.bind_ok, hfee, Bool.false_eq_true, ↓reduceIte]
      cases hk : hookFor c1.ext hook with
      | err e => simp only [Res.bind_err]; exact Res.PanicsIn.err _
      | panic e => exact (hookFor_noPanic _ _ e hk).elim
      | ok hkv =>
        simp only [Res.bind_ok]
        cases hkv with
        | noop => exact Res.PanicsIn.pure _
        | igp idenom idomain rate price overhead =>
          simp only
          -- the gas the paymaster computes with is a natural number the configuration covers
          obtain ⟨n, hn, hcov⟩ : ∃ n : Nat, (if gas == 0 then (rgas : Int) else gas) = (n : Int) ∧
              (n < 18446744073709551616 ∨ ∃ r ∈ c1.ext.hypRouters, r.2.2 = n) := by
            by_cases hz : gas = 0
            · exact ⟨rgas, by simp [hz], Or.inr (lookupRouter_mem hr)⟩
            · refine ⟨gas.toNat, ?_, Or.inl ?_⟩
              · have : (gas == 0) = false := by simpa using hz
                simp only [this, Bool.false_eq_true, ↓reduceIte]
                omega
              · omega
          have hm := hookFor_mem hk
          rw [hext] at hm hcov
          obtain ⟨b1, b2, b3⟩ := hsane idenom idomain rate price overhead hm n hcov
          rw [hn]
          have o1 : overflows256 ((n : Int) + (overhead : Int)) = false := by
            rw [← Int.natCast_add]; exact overflows256_natCast _ b1
          have o2 : overflows256 (((n : Int) + (overhead : Int)) * (price : Int)) = false := by
            rw [← Int.natCast_add, ← Int.natCast_mul]; exact overflows256_natCast _ b2
          have o3 : overflows256 (((n : Int) + (overhead : Int)) * (price : Int) * (rate : Int)) = false := by
            rw [← Int.natCast_add, ← Int.natCast_mul, ← Int.natCast_mul]; exact overflows256_natCast _ b3
          simp only [o1, o2, o3, Bool.or_self, Bool.false_eq_true, ↓reduceIte]
          intro s h
          repeat' (first | (cases h; done) | split at h)
          all_goals exact (send_noPanic _ _ _ _ _ _ _ h).elim

theorem bankMsgSend_noPanic (cfg : Cfg) (c : Ctx) (to denom : String) (amt : Int) : (bankMsgSend cfg c to denom amt).NoPanic := by
  unfold bankMsgSend
  cases accAddressFromBech32 cfg.hrp to with
  | none => exact Res.PanicsIn.err _
  | some dst =>
    simp only
    apply Res.PanicsIn.ite
    · intro _; exact Res.PanicsIn.err _
    · intro _
      apply Res.PanicsIn.ite
      · intro _; exact Res.PanicsIn.err _
      · intro _
        apply Res.PanicsIn.ite
        · intro _; exact Res.PanicsIn.err _
        · intro _; exact send_noPanic _ _ _ _ _ _

theorem hyp_validate_fee {hrp : String} {orb tok rec_ hook : Bytes} {domain : Nat} {hmeta feeDenom : String} {gas feeAmt : Int}
    (h : (Attrs.hyp tok domain rec_ hook hmeta gas feeDenom feeAmt).validate hrp orb = .ok ()) :
    (decide (feeAmt < 0) || (feeAmt != 0 && !validDenom feeDenom)) = false := by
  simp only [Attrs.validate] at h
  repeat' (first | (cases h; done) | split at h)
  rename_i h1 h2
  simp only [Bool.or_eq_false_iff, decide_eq_false_iff_not]
  refine ⟨h1, ?_⟩
  cases hz : (feeAmt != 0) with
  | false => rfl
  | true =>
    cases hv : validDenom feeDenom with
    | true => simp
    | false => simp [hz, hv] at h2

theorem hyp_validate_gas {hrp : String} {orb tok rec_ hook : Bytes} {domain : Nat} {hmeta feeDenom : String} {gas feeAmt : Int}
    (h : (Attrs.hyp tok domain rec_ hook hmeta gas feeDenom feeAmt).validate hrp orb = .ok ()) :
    0 ≤ gas ∧ gas < 18446744073709551616 := by
  simp only [Attrs.validate] at h
  repeat' (first | (cases h; done) | split at h)
  rename_i hg _ _
  simp only [Bool.or_eq_true, decide_eq_true_eq, not_or, Int.not_lt, ge_iff_le, Int.not_le] at hg
  exact hg

/-- A Hyperlane gas limit outside 0 … 2^64−1 never passes the validation of the attributes: the payload is refused with an error
acknowledgement before anything reaches the Hyperlane module (repair `3c0ea7a`; before it, 2^255 made the module's gas
paymaster panic — `findings/C14-hyp-gas-limit-overflow.replay.json`). -/
theorem c14_gas_limit_out_of_range_refused {hrp : String} {orb tok rec_ hook : Bytes} {domain : Nat} {hmeta feeDenom : String} {gas feeAmt : Int}
    (h : gas < 0 ∨ 18446744073709551616 ≤ gas) : (Attrs.hyp tok domain rec_ hook hmeta gas feeDenom feeAmt).validate hrp orb ≠ .ok () := by
  intro hv
  have := hyp_validate_gas hv
  omega

theorem forwarderHandle_noPanic (cfg : Cfg) (π : OneofOrder) (φ : Faults) (o : OrbState) (c : Ctx) (t : TransferAttrs) (f : Forwarding)
    (hsane : IgpSane c.ext) : (forwarderHandle (appWiring cfg π) φ o c t f).NoPanic := by
  unfold forwarderHandle
  cases hv : (f.validate >>= fun _ => t.validate) with
  | err e => simp only [Res.mapErr, Res.bind_err]; exact Res.PanicsIn.err _
  | panic e =>
    exact ((Res.PanicsIn.bind (Forwarding.validate_noPanic f) (fun _ _ => TransferAttrs.validate_noPanic t)) e hv).elim
  | ok u =>
    obtain ⟨_, _, ht⟩ := Res.bind_eq_ok.mp hv
    obtain ⟨_, _, _, hcv, _⟩ := transfer_validate_ok ht
    simp only [Res.mapErr, Res.bind_ok]
    cases ha : f.attrs with
    | none => simp only [Res.bind_err]; exact Res.PanicsIn.err _
    | some a =>
      simp only [Res.pure_eq, Res.bind_ok]
      apply Res.PanicsIn.guard; intro _
      apply Res.PanicsIn.guard; intro _
      apply Res.PanicsIn.guard; intro _
      apply Res.PanicsIn.guard; intro _
      simp only [appWiring, appForwardingRouter]
      split
      · exact Res.PanicsIn.err _
      · rename_i ctl hctl
        split at hctl
        · cases hctl
        · split at hctl
          · -- CCTP
            simp only [Option.some.injEq] at hctl; subst hctl
            unfold cctpController
            simp only [ha, Res.pure_eq, Res.bind_ok]
            cases a with
            | cctp domain mint caller =>
              simp only
              refine Res.PanicsIn.bind (P := fun _ => False) (Res.PanicsIn.mapErr _ (Attrs.validate_noPanic _ _ _)) ?_
              intro _ _
              refine Res.PanicsIn.bind (P := fun _ => False) (call_noPanic _ _ _) ?_
              intro c1 _
              exact cctpDepositForBurn_noPanic _ _ _ _ _ _ _
            | hyp => exact Res.PanicsIn.err _
            | internal => exact Res.PanicsIn.err _
            | fee => exact Res.PanicsIn.err _
          · split at hctl
            · -- Hyperlane
              simp only [Option.some.injEq] at hctl; subst hctl
              unfold hypController
              simp only [ha, Res.pure_eq, Res.bind_ok]
              cases a with
              | hyp tok domain rec_ hook hmeta gas feeDenom feeAmt =>
                simp only
                refine Res.PanicsIn.bind (P := fun _ => False) (TransferAttrs.validate_noPanic t) ?_
                intro _ _
                cases hval : (Attrs.hyp tok domain rec_ hook hmeta gas feeDenom feeAmt).validate cfg.hrp cfg.orbAddr with
                | err e => simp only [Res.mapErr, Res.bind_err]; exact Res.PanicsIn.err _
                | panic e => exact (Attrs.validate_noPanic _ _ _ e hval).elim
                | ok u' =>
                  simp only [Res.mapErr, Res.bind_ok]
                  refine Res.PanicsIn.bind (P := fun _ => False) (call_noPanic _ _ _) ?_
                  intro c1 hc1
                  cases lookupTok c1.ext.hypTokens tok with
                  | none => simp only [Res.bind_err]; exact Res.PanicsIn.err _
                  | some origin =>
                    simp only [Res.bind_ok]
                    apply Res.PanicsIn.guard; intro _
                    refine Res.PanicsIn.bind (P := fun _ => False) (call_noPanic _ _ _) ?_
                    intro c2 hc2
                    have e1 : c1.ext = c.ext := C11.call_ext hc1
                    have e2 := C11.call_ext hc2
                    have he : c2.ext = c.ext := e2.trans e1
                    exact warpRemoteTransfer_noPanic _ _ _ _ _ _ _ _ _ (hyp_validate_fee hval) (hyp_validate_gas hval)
                      (hsane.of_eq (by rw [he]) (by rw [he]))
              | cctp => exact Res.PanicsIn.err _
              | internal => exact Res.PanicsIn.err _
              | fee => exact Res.PanicsIn.err _
            · split at hctl
              · -- internal
                simp only [Option.some.injEq] at hctl; subst hctl
                unfold internalController
                simp only [ha, Res.pure_eq, Res.bind_ok]
                cases a with
                | internal recipient =>
                  simp only
                  refine Res.PanicsIn.bind (P := fun _ => False) (TransferAttrs.validate_noPanic t) ?_
                  intro _ _
                  refine Res.PanicsIn.bind (P := fun _ => False) (Res.PanicsIn.mapErr _ (Attrs.validate_noPanic _ _ _)) ?_
                  intro _ _
                  refine Res.PanicsIn.bind (P := fun _ => False) ?_ ?_
                  · unfold newCoin; rw [hcv]; exact Res.PanicsIn.ok _
                  · intro _ _
                    refine Res.PanicsIn.bind (P := fun _ => False) (call_noPanic _ _ _) ?_
                    intro c1 _
                    exact bankMsgSend_noPanic _ _ _ _ _
                | cctp => exact Res.PanicsIn.err _
                | hyp => exact Res.PanicsIn.err _
                | fee => exact Res.PanicsIn.err _
              · cases hctl

theorem dispatchPayload_noPanic (cfg : Cfg) (π : OneofOrder) (φ : Faults) (o : OrbState) (c : Ctx) (t : TransferAttrs) (p : Payload)
    (hsane : IgpSane c.ext) : (dispatchPayload (appWiring cfg π) φ o c t p).NoPanic := by
  unfold dispatchPayload
  refine Res.PanicsIn.bind (P := fun _ => False) (Res.PanicsIn.mapErr _ (Payload.validate_noPanic p)) ?_
  intro _ _
  refine Res.PanicsIn.bind (P := fun _ => False) (dispatchActions_noPanic cfg π φ o _ c t) ?_
  intro r hr
  obtain ⟨c1, t1⟩ := r
  have he : c1.ext = c.ext := (C11.dispatchActions_ext _ _ _ _ _ hr).1
  simp only
  cases p.forwarding with
  | none => simp only [Res.bind_err]; exact Res.PanicsIn.err _
  | some f =>
    simp only [Res.pure_eq, Res.bind_ok]
    exact Res.PanicsIn.bind (forwarderHandle_noPanic cfg π φ o c1 t1 f (hsane.of_eq (by rw [he]) (by rw [he]))) (fun _ _ => Res.PanicsIn.pure _)

theorem blockibc_noPanic (c : Ctx) (pkt : Packet) : (blockibcCheck c pkt).NoPanic := by
  unfold blockibcCheck; np_leaves

theorem hook_ext {wr : Wiring} {φ : Faults} {o : OrbState} {c c1 : Ctx} {t : TransferAttrs} {p : Payload}
    (h : beforeTransferHook wr φ o c t p = .ok c1) : c1.ext = c.ext := by
  unfold beforeTransferHook at h
  simp only [Res.guard_bind_eq_ok] at h
  obtain ⟨_, h⟩ := h
  split at h
  · simp only [Res.pure_eq, Res.ok.injEq] at h; rw [← h]
  · obtain ⟨c0, hc0, h⟩ := Res.bind_eq_ok.mp h
    rw [C11.send_ext h, C11.call_ext hc0]

/-- The sweep and the wrapped application leave the paymasters and routers of the environment as they were. -/
theorem IgpSane.after_app {wr : Wiring} {φ : Faults} {o : OrbState} {c0 c1 c2 : Ctx} {t : TransferAttrs} {p : Payload} {pkt : Packet}
    (hs : IgpSane c0.ext) (hh : beforeTransferHook wr φ o c0 t p = .ok c1) (hw : wrappedApp wr φ c1 pkt = .ok c2) : IgpSane c2.ext := by
  unfold wrappedApp at hw
  obtain ⟨cx, hcx, hw⟩ := Res.bind_eq_ok.mp hw
  have e1 : cx.ext = c0.ext := (C11.call_ext hcx).trans (hook_ext hh)
  exact hs.of_eq (by rw [C11.ics20_hook_same hw, e1]) (by rw [C11.ics20_routers_same hw, e1])

/-- **C14.** On the chain's wiring, for every packet (arbitrary bytes as data, any identifiers), every
module state, ledger, environment and fault oracle: the stack returns an acknowledgement. The only aborts
the model can exhibit are the two panics of ibc-go's own transfer module. -/
theorem c14_never_panics (cfg : Cfg) (π : OneofOrder) (φ : Faults) (o : OrbState) (c0 : Ctx) (pkt : Packet) (s : String)
    (hsane : IgpSane c0.ext) (h : (stackOnRecv (appWiring cfg π) φ o c0 pkt).ack = .panic s) : ibcGoPanic s := by
  unfold stackOnRecv at h
  cases hb : blockibcCheck c0 pkt with
  | err e => simp [hb] at h
  | panic e => exact (blockibc_noPanic c0 pkt e hb).elim
  | ok u =>
    simp only [hb] at h
    unfold mwOnRecv at h
    split at h
    · cases h
    · split at h
      · cases h
      · split at h
        · cases h
        · cases ha : adaptPacket (appWiring cfg π) pkt with
          | err e => simp [ha] at h
          | panic e => exact (adaptPacket_noPanic _ pkt e ha).elim
          | ok r =>
            cases r with
            | notOrbiter =>
              simp only [ha] at h
              cases hi : ics20Recv (appWiring cfg π).cfg c0 pkt with
              | ok c => simp [hi] at h
              | err e => simp [hi] at h
              | panic e =>
                simp only [hi, Ack.panic.injEq] at h
                subst h
                exact ics20_panics_only_ibcgo _ c0 pkt e hi
            | orbiter t p =>
              simp only [ha] at h
              cases hh : beforeTransferHook (appWiring cfg π) φ o c0 t p with
              | err e => simp [hh] at h
              | panic e => exact (hook_noPanic _ φ o c0 t p e hh).elim
              | ok c1 =>
                simp only [hh] at h
                cases hw : wrappedApp (appWiring cfg π) φ c1 pkt with
                | err e => simp [hw] at h
                | panic e =>
                  simp only [hw, Ack.panic.injEq] at h
                  subst h
                  unfold wrappedApp at hw
                  exact (Res.PanicsIn.bind (P := ibcGoPanic) ((call_noPanic _ _ _).mono (fun _ x => x.elim))
                    (fun c _ => ics20_panics_only_ibcgo _ c pkt)) e hw
                | ok c2 =>
                  simp only [hw] at h
                  cases hp : processPayload (appWiring cfg π) φ o c2 t p with
                  | ok r => obtain ⟨c3, o'⟩ := r; simp [hp] at h
                  | err e => simp [hp] at h
                  | panic e =>
                    exfalso
                    unfold processPayload at hp
                    refine (Res.PanicsIn.bind (P := fun _ => False) (dispatchPayload_noPanic cfg π φ o c2 t p (hsane.after_app hh hw)) ?_) e hp
                    intro r _
                    obtain ⟨c3, t3, o3⟩ := r
                    exact Res.PanicsIn.bind (emit_noPanic _ _ _) (fun _ _ => Res.PanicsIn.pure _)

/-- For orbiter transfers the only abort is ibc-go's total-escrow invariant. -/
theorem c14_orbiter_transfer_panics_only_escrow (cfg : Cfg) (π : OneofOrder) (φ : Faults) (o : OrbState) (c0 : Ctx) (pkt : Packet)
    (t : TransferAttrs) (p : Payload) (ha : adaptPacket (appWiring cfg π) pkt = .ok (.orbiter t p)) (s : String)
    (hsane : IgpSane c0.ext) (h : (mwOnRecv (appWiring cfg π) φ o c0 pkt).ack = .panic s) : s = "ics20:total-escrow-negative" := by
  unfold mwOnRecv at h
  split at h
  · cases h
  · split at h
    · cases h
    · split at h
      · cases h
      · simp only [ha] at h
        cases hh : beforeTransferHook (appWiring cfg π) φ o c0 t p with
        | err e => simp [hh] at h
        | panic e => exact (hook_noPanic _ φ o c0 t p e hh).elim
        | ok c1 =>
          simp only [hh] at h
          cases hw : wrappedApp (appWiring cfg π) φ c1 pkt with
          | err e => simp [hw] at h
          | panic e =>
            simp only [hw, Ack.panic.injEq] at h
            subst h
            unfold wrappedApp at hw
            exact (Res.PanicsIn.bind (P := (· = "ics20:total-escrow-negative")) ((call_noPanic _ _ _).mono (fun _ x => x.elim))
              (fun c _ => ics20_orbiter_packet_only_escrow (appWiring cfg π) c pkt t p ha)) e hw
          | ok c2 =>
            simp only [hw] at h
            cases hp : processPayload (appWiring cfg π) φ o c2 t p with
            | ok r => obtain ⟨c3, o'⟩ := r; simp [hp] at h
            | err e => simp [hp] at h
            | panic e =>
              exfalso
              unfold processPayload at hp
              refine (Res.PanicsIn.bind (P := fun _ => False) (dispatchPayload_noPanic cfg π φ o c2 t p (hsane.after_app hh hw)) ?_) e hp
              intro r _
              obtain ⟨c3, t3, o3⟩ := r
              exact Res.PanicsIn.bind (emit_noPanic _ _ _) (fun _ _ => Res.PanicsIn.pure _)


/-! ### non-vacuity: an environment with a gas paymaster as the mailbox default and a router with its own gas is sane -/
example : IgpSane { blocked := fun _ => false, totalEscrow := fun _ => 0, cctpDomain := fun _ => true,
                    hypHook := .igp "uusdc" 1 10000000000 1 50000, hypRouters := [([], 1, 50000)] } := by
  intro dn dom rate price overhead hm g hg
  simp only [ExtState.hooks, List.mem_cons, List.not_mem_nil, or_false, reduceCtorEq, Hook.igp.injEq] at hm
  obtain ⟨_, _, rfl, rfl, rfl⟩ := hm
  have hb : g < 18446744073709551616 := by
    rcases hg with hg | ⟨r, hr, rfl⟩
    · exact hg
    · simp only [List.mem_cons, List.not_mem_nil, or_false] at hr
      subst hr
      decide
  have : pow2_256 = 115792089237316195423570985008687907853269984665640564039457584007913129639936 := by decide
  rw [this]
  omega

end Orbiter.C14
