// facts is Tie A of DESIGN.md §4.1: it links against /repo's current tree and prints, by evaluation
// and reflection (never by parsing syntax), the facts the Lean model is parametrised by, as a Lean
// file (Orbiter/Gen/Facts.lean) and as JSON (for the evidence).
package main

import (
	"encoding/json"
	"fmt"
	"os"
	"sort"
	"strings"

	protov2 "google.golang.org/protobuf/proto"
	"google.golang.org/protobuf/reflect/protoreflect"

	msgv1 "cosmossdk.io/api/cosmos/msg/v1"
	codectypes "github.com/cosmos/cosmos-sdk/codec/types"
	sdk "github.com/cosmos/cosmos-sdk/types"
	authtypes "github.com/cosmos/cosmos-sdk/x/auth/types"
	transfertypes "github.com/cosmos/ibc-go/v8/modules/apps/transfer/types"
	"github.com/cosmos/gogoproto/proto"

	cctptypes "github.com/circlefin/noble-cctp/x/cctp/types"
	ftftypes "github.com/circlefin/noble-fiattokenfactory/x/fiattokenfactory/types"

	warptypes "github.com/bcp-innovations/hyperlane-cosmos/x/warp/types"

	adaptertypes "github.com/noble-assets/orbiter/v2/types/component/adapter"
	actiontypes "github.com/noble-assets/orbiter/v2/types/controller/action"
	fwdtypes "github.com/noble-assets/orbiter/v2/types/controller/forwarding"
	"github.com/noble-assets/orbiter/v2/types/core"

	"verifharness/app"
)

type facts struct {
	Nat   map[string]uint64
	Str   map[string]string
	Bool  map[string]bool
	Bytes map[string][]byte
	// enum tables
	ProtocolIds [][2]any
	ActionIds   [][2]any
	// routes
	ForwardingRoutes []int32
	ActionRoutes     []int32
	AdapterRoutes    []int32
	// registry
	ForwardingAttrUrls []string
	ActionAttrUrls     []string
	// Msg RPC surface: "service/method" -> signer field
	MsgRpcs [][2]string
	// blocked addresses
	Blocked [][]byte
	// JSON field tables of the payload messages: message -> list of orig|json|kind
	Fields map[string][]string
	// registered error codes
	Errors map[string]uint32
}

func leanBytes(b []byte) string {
	parts := make([]string, len(b))
	for i, x := range b {
		parts[i] = fmt.Sprintf("0x%02x", x)
	}
	return "[" + strings.Join(parts, ", ") + "]"
}

func leanStr(s string) string {
	var sb strings.Builder
	sb.WriteByte('"')
	for _, r := range s {
		switch {
		case r == '"':
			sb.WriteString("\\\"")
		case r == '\\':
			sb.WriteString("\\\\")
		case r < 32 || r > 126:
			fmt.Fprintf(&sb, "\\u{%x}", r)
		default:
			sb.WriteRune(r)
		}
	}
	sb.WriteByte('"')
	return sb.String()
}

func enumTable(m map[int32]string) [][2]any {
	keys := make([]int, 0, len(m))
	for k := range m {
		keys = append(keys, int(k))
	}
	sort.Ints(keys)
	out := make([][2]any, 0, len(keys))
	for _, k := range keys {
		out = append(out, [2]any{k, m[int32(k)]})
	}
	return out
}

func fieldTable(fullName string) []string {
	files, err := proto.MergedRegistry()
	if err != nil {
		return nil
	}
	d, err := files.FindDescriptorByName(protoreflect.FullName(fullName))
	if err != nil {
		return []string{"<missing>"}
	}
	md, ok := d.(protoreflect.MessageDescriptor)
	if !ok {
		return nil
	}
	var out []string
	fs := md.Fields()
	for i := 0; i < fs.Len(); i++ {
		f := fs.Get(i)
		kind := f.Kind().String()
		if f.IsList() {
			kind = "repeated " + kind
		}
		if f.Kind() == protoreflect.MessageKind {
			kind += ":" + string(f.Message().FullName())
		}
		if f.Kind() == protoreflect.EnumKind {
			kind += ":" + string(f.Enum().FullName())
		}
		oneof := ""
		if o := f.ContainingOneof(); o != nil {
			oneof = "|oneof=" + string(o.Name())
		}
		out = append(out, fmt.Sprintf("%s|%s|%s%s", f.Name(), f.JSONName(), kind, oneof))
	}
	return out
}

func main() {
	app.SetPrefixes()
	env, err := app.Boot(app.DefaultConfig())
	if err != nil {
		fmt.Fprintln(os.Stderr, "boot:", err)
		os.Exit(2)
	}
	defer env.Close()
	a := env.App
	k := a.OrbiterKeeper

	f := facts{Nat: map[string]uint64{}, Str: map[string]string{}, Bool: map[string]bool{}, Bytes: map[string][]byte{},
		Fields: map[string][]string{}, Errors: map[string]uint32{}}

	f.Nat["bpsNormalizer"] = actiontypes.BPSNormalizer
	f.Nat["maxFeeRecipients"] = actiontypes.MaxFeeRecipients
	f.Nat["maxCounterpartyIDLength"] = core.MaxCounterpartyIDLength
	f.Nat["maxTargetCounterparties"] = core.MaxTargetCounterparties
	f.Nat["cctpNobleDomain"] = fwdtypes.CCTPNobleDomain
	f.Nat["defaultMaxPassthroughPayloadSize"] = uint64(adaptertypes.DefaultGenesisState().Params.MaxPassthroughPayloadSize)
	f.Nat["hypTokenIDLen"] = fwdtypes.HypTokenIDLen
	f.Nat["hypRecipientLen"] = fwdtypes.HypRecipientLen
	f.Nat["hypCustomHookLen"] = fwdtypes.HypCustomHookLen
	f.Nat["hypNobleMainnetDomain"] = fwdtypes.HypNobleMainnetDomain
	f.Nat["hypNobleTestnetDomain"] = fwdtypes.HypNobleTestnetDomain
	f.Str["hypHookMetadataPrefix"] = fwdtypes.HypHookMetadataPrefix
	f.Str["internalCounterpartyID"] = (&fwdtypes.InternalAttributes{}).CounterpartyID()
	f.Str["moduleName"] = core.ModuleName
	f.Str["dustCollectorName"] = core.DustCollectorName
	f.Str["orbiterPrefix"] = core.OrbiterPrefix
	f.Str["bech32Prefix"] = sdk.GetConfig().GetBech32AccountAddrPrefix()
	// the separator, observed through ID()
	id := core.CrossChainID{ProtocolId: core.PROTOCOL_INTERNAL, CounterpartyId: "X"}.ID()
	f.Str["idSeparator"] = strings.TrimSuffix(strings.TrimPrefix(id, fmt.Sprint(uint32(core.PROTOCOL_INTERNAL))), "X")
	f.Str["authority"] = k.Authority()
	f.Str["moduleAddressBech32"] = core.ModuleAddress.String()

	f.ProtocolIds = enumTable(core.ProtocolID_name)
	f.ActionIds = enumTable(core.ActionID_name)

	for n := range core.ProtocolID_name {
		if k.Forwarder().Router().HasRoute(core.ProtocolID(n)) {
			f.ForwardingRoutes = append(f.ForwardingRoutes, n)
		}
		if k.Adapter().Router().HasRoute(core.ProtocolID(n)) {
			f.AdapterRoutes = append(f.AdapterRoutes, n)
		}
	}
	for n := range core.ActionID_name {
		if k.Executor().Router().HasRoute(core.ActionID(n)) {
			f.ActionRoutes = append(f.ActionRoutes, n)
		}
	}
	sort.Slice(f.ForwardingRoutes, func(i, j int) bool { return f.ForwardingRoutes[i] < f.ForwardingRoutes[j] })
	sort.Slice(f.AdapterRoutes, func(i, j int) bool { return f.AdapterRoutes[i] < f.AdapterRoutes[j] })
	sort.Slice(f.ActionRoutes, func(i, j int) bool { return f.ActionRoutes[i] < f.ActionRoutes[j] })

	reg := k.Codec().InterfaceRegistry()
	// which registered type URLs unpack against the two attribute interfaces (probed, not looked up by name)
	seen := map[string]bool{}
	for _, iface := range reg.ListAllInterfaces() {
		for _, u := range reg.ListImplementations(iface) {
			if seen[u] {
				continue
			}
			seen[u] = true
			m, err := reg.Resolve(u)
			if err != nil {
				continue
			}
			anyv, err := codectypes.NewAnyWithValue(m)
			if err != nil {
				continue
			}
			// no cached value: the registry must resolve the URL against the interface
			var fa core.ForwardingAttributes
			if reg.UnpackAny(&codectypes.Any{TypeUrl: anyv.TypeUrl, Value: anyv.Value}, &fa) == nil {
				f.ForwardingAttrUrls = append(f.ForwardingAttrUrls, u)
			}
			var aa core.ActionAttributes
			if reg.UnpackAny(&codectypes.Any{TypeUrl: anyv.TypeUrl, Value: anyv.Value}, &aa) == nil {
				f.ActionAttrUrls = append(f.ActionAttrUrls, u)
			}
		}
	}
	sort.Strings(f.ForwardingAttrUrls)
	sort.Strings(f.ActionAttrUrls)

	// Msg RPC surface from the descriptors
	files, err := proto.MergedRegistry()
	if err != nil {
		fmt.Fprintln(os.Stderr, "registry:", err)
		os.Exit(2)
	}
	files.RangeFiles(func(fd protoreflect.FileDescriptor) bool {
		if !strings.HasPrefix(string(fd.Package()), "noble.orbiter") {
			return true
		}
		svcs := fd.Services()
		for i := 0; i < svcs.Len(); i++ {
			sd := svcs.Get(i)
			if sd.Name() != "Msg" {
				continue
			}
			ms := sd.Methods()
			for j := 0; j < ms.Len(); j++ {
				md := ms.Get(j)
				signer := ""
				if v, ok := protov2.GetExtension(md.Input().Options(), msgv1.E_Signer).([]string); ok {
					signer = strings.Join(v, "+")
				}
				f.MsgRpcs = append(f.MsgRpcs, [2]string{string(sd.FullName()) + "/" + string(md.Name()), signer})
			}
		}
		return true
	})
	sort.Slice(f.MsgRpcs, func(i, j int) bool { return f.MsgRpcs[i][0] < f.MsgRpcs[j][0] })

	// addresses and wiring
	f.Bytes["moduleAddress"] = core.ModuleAddress
	f.Bytes["dustCollectorAddress"] = authtypes.NewModuleAddress(core.DustCollectorName)
	f.Bytes["transferModuleAddress"] = authtypes.NewModuleAddress(transfertypes.ModuleName)
	f.Bytes["cctpModuleAddress"] = authtypes.NewModuleAddress(cctptypes.ModuleName)
	f.Bytes["ftfModuleAddress"] = authtypes.NewModuleAddress(ftftypes.ModuleName)
	f.Bytes["warpModuleAddress"] = authtypes.NewModuleAddress(warptypes.ModuleName)
	f.Bytes["hyperlaneModuleAddress"] = authtypes.NewModuleAddress("hyperlane")
	f.Bool["orbiterBlocked"] = a.BankKeeper.BlockedAddr(core.ModuleAddress)
	f.Bool["dustCollectorBlocked"] = a.BankKeeper.BlockedAddr(authtypes.NewModuleAddress(core.DustCollectorName))
	f.Bool["dustCollectorHasAccountPermission"] = a.AccountKeeper.GetModuleAccount(env.Ctx, core.DustCollectorName) != nil
	var blocked []string
	for addr := range a.BankKeeper.GetBlockedAddresses() {
		blocked = append(blocked, addr)
	}
	sort.Strings(blocked)
	for _, b := range blocked {
		ad, err := sdk.AccAddressFromBech32(b)
		if err == nil {
			f.Blocked = append(f.Blocked, ad)
		}
	}

	for _, m := range []string{
		"noble.orbiter.core.v1.PayloadWrapper", "noble.orbiter.core.v1.Payload", "noble.orbiter.core.v1.Action",
		"noble.orbiter.core.v1.Forwarding", "noble.orbiter.controller.forwarding.v1.CCTPAttributes",
		"noble.orbiter.controller.forwarding.v1.HypAttributes", "noble.orbiter.controller.forwarding.v1.InternalAttributes",
		"noble.orbiter.controller.action.v2.FeeAttributes", "noble.orbiter.controller.action.v2.FeeInfo",
		"noble.orbiter.controller.action.v2.FeeInfo.BasisPoints", "noble.orbiter.controller.action.v2.FeeInfo.Amount",
	} {
		f.Fields[m] = fieldTable(m)
	}

	for name, e := range map[string]interface{ ABCICode() uint32 }{
		"ErrUnauthorized": core.ErrUnauthorized, "ErrIDNotSupported": core.ErrIDNotSupported, "ErrNilPointer": core.ErrNilPointer,
		"ErrEmptyString": core.ErrEmptyString, "ErrInvalidAttributes": core.ErrInvalidAttributes, "ErrValidation": core.ErrValidation,
		"ErrParsingPayload": core.ErrParsingPayload, "ErrUnableToPause": core.ErrUnableToPause, "ErrUnableToUnpause": core.ErrUnableToUnpause,
		"ErrAlreadySet": core.ErrAlreadySet, "ErrNoOrbiterPacket": core.ErrNoOrbiterPacket,
	} {
		f.Errors[name] = e.ABCICode()
	}

	// ---- emit
	if len(os.Args) > 2 {
		j, _ := json.MarshalIndent(f, "", " ")
		_ = os.WriteFile(os.Args[2], j, 0o644)
	}
	var sb strings.Builder
	sb.WriteString("-- GENERATED by harness/cmd/facts from the code built from /repo's working tree. Do not edit.\n")
	sb.WriteString("namespace Orbiter.Gen\n")
	natKeys := make([]string, 0)
	for k := range f.Nat {
		natKeys = append(natKeys, k)
	}
	sort.Strings(natKeys)
	for _, k := range natKeys {
		fmt.Fprintf(&sb, "def %s : Nat := %d\n", k, f.Nat[k])
	}
	strKeys := make([]string, 0)
	for k := range f.Str {
		strKeys = append(strKeys, k)
	}
	sort.Strings(strKeys)
	for _, k := range strKeys {
		fmt.Fprintf(&sb, "def %s : String := %s\n", k, leanStr(f.Str[k]))
	}
	boolKeys := make([]string, 0)
	for k := range f.Bool {
		boolKeys = append(boolKeys, k)
	}
	sort.Strings(boolKeys)
	for _, k := range boolKeys {
		fmt.Fprintf(&sb, "def %s : Bool := %v\n", k, f.Bool[k])
	}
	byteKeys := make([]string, 0)
	for k := range f.Bytes {
		byteKeys = append(byteKeys, k)
	}
	sort.Strings(byteKeys)
	for _, k := range byteKeys {
		fmt.Fprintf(&sb, "def %s : List UInt8 := %s\n", k, leanBytes(f.Bytes[k]))
	}
	enum := func(name string, t [][2]any) {
		parts := make([]string, len(t))
		for i, e := range t {
			parts[i] = fmt.Sprintf("(%d, %s)", e[0], leanStr(e[1].(string)))
		}
		fmt.Fprintf(&sb, "def %s : List (Int × String) := [%s]\n", name, strings.Join(parts, ", "))
	}
	enum("protocolIds", f.ProtocolIds)
	enum("actionIds", f.ActionIds)
	ints := func(name string, l []int32) {
		parts := make([]string, len(l))
		for i, e := range l {
			parts[i] = fmt.Sprint(e)
		}
		fmt.Fprintf(&sb, "def %s : List Int := [%s]\n", name, strings.Join(parts, ", "))
	}
	ints("forwardingRoutes", f.ForwardingRoutes)
	ints("actionRoutes", f.ActionRoutes)
	ints("adapterRoutes", f.AdapterRoutes)
	strs := func(name string, l []string) {
		parts := make([]string, len(l))
		for i, e := range l {
			parts[i] = leanStr(e)
		}
		fmt.Fprintf(&sb, "def %s : List String := [%s]\n", name, strings.Join(parts, ", "))
	}
	strs("forwardingAttrUrls", f.ForwardingAttrUrls)
	strs("actionAttrUrls", f.ActionAttrUrls)
	{
		parts := make([]string, len(f.MsgRpcs))
		for i, e := range f.MsgRpcs {
			parts[i] = fmt.Sprintf("(%s, %s)", leanStr(e[0]), leanStr(e[1]))
		}
		fmt.Fprintf(&sb, "def msgRpcs : List (String × String) := [%s]\n", strings.Join(parts, ", "))
	}
	{
		parts := make([]string, len(f.Blocked))
		for i, e := range f.Blocked {
			parts[i] = leanBytes(e)
		}
		fmt.Fprintf(&sb, "def blockedAddresses : List (List UInt8) := [%s]\n", strings.Join(parts, ", "))
	}
	{
		names := make([]string, 0)
		for m := range f.Fields {
			names = append(names, m)
		}
		sort.Strings(names)
		parts := make([]string, 0)
		for _, m := range names {
			fl := make([]string, len(f.Fields[m]))
			for i, x := range f.Fields[m] {
				fl[i] = leanStr(x)
			}
			parts = append(parts, fmt.Sprintf("(%s, [%s])", leanStr(m), strings.Join(fl, ", ")))
		}
		fmt.Fprintf(&sb, "def payloadFields : List (String × List String) := [%s]\n", strings.Join(parts, ",\n  "))
	}
	{
		names := make([]string, 0)
		for m := range f.Errors {
			names = append(names, m)
		}
		sort.Strings(names)
		parts := make([]string, 0)
		for _, m := range names {
			parts = append(parts, fmt.Sprintf("(%s, %d)", leanStr(m), f.Errors[m]))
		}
		fmt.Fprintf(&sb, "def errorCodes : List (String × Nat) := [%s]\n", strings.Join(parts, ", "))
	}
	sb.WriteString("end Orbiter.Gen\n")
	out := "/dev/stdout"
	if len(os.Args) > 1 {
		out = os.Args[1]
	}
	if err := os.WriteFile(out, []byte(sb.String()), 0o644); err != nil {
		fmt.Fprintln(os.Stderr, err)
		os.Exit(2)
	}
}
