/-
  Orbiter.World — state: the orbiter module's own collections, the bank ledger and the part of the
  external modules' state the receive path reads (DESIGN.md §3.4, §3.6).
  The ledger is a function (frame lemmas become `if`-rewrites); what a step moved is returned as an
  explicit list of `Move`s, from which the driver prints balance deltas.
-/
import Orbiter.Prims
import Orbiter.Types
import Orbiter.Ids
namespace Orbiter

abbrev Addr := Bytes

inductive Move where
  | xfer (src dst : Addr) (denom : String) (amt : Nat)
  | burn (src : Addr) (denom : String) (amt : Nat)
  | mint (dst : Addr) (denom : String) (amt : Nat)
  deriving Repr, DecidableEq, Inhabited

structure Ledger where
  bal : Addr → String → Nat
  supply : String → Nat

namespace Ledger

def empty : Ledger := { bal := fun _ _ => 0, supply := fun _ => 0 }

def setBal (l : Ledger) (a : Addr) (d : String) (v : Nat) : Ledger :=
  { l with bal := fun a' d' => if a' = a ∧ d' = d then v else l.bal a' d' }

/-- Bank send: fails on insufficient funds, otherwise debit then credit (a self-send is a no-op). -/
def send (l : Ledger) (src dst : Addr) (d : String) (amt : Nat) : Option Ledger :=
  if l.bal src d < amt then none
  else
    let l1 := l.setBal src d (l.bal src d - amt)
    some (l1.setBal dst d (l1.bal dst d + amt))

def mint (l : Ledger) (dst : Addr) (d : String) (amt : Nat) : Ledger :=
  let l1 := l.setBal dst d (l.bal dst d + amt)
  { l1 with supply := fun d' => if d' = d then l.supply d + amt else l.supply d' }

def burn (l : Ledger) (src : Addr) (d : String) (amt : Nat) : Option Ledger :=
  if l.bal src d < amt then none
  else
    let l1 := l.setBal src d (l.bal src d - amt)
    some { l1 with supply := fun d' => if d' = d then l.supply d - amt else l.supply d' }

end Ledger

/-- Key of a dispatched-amounts entry: (source protocol, source counterparty, destination id text, denom). -/
structure AmtKey where
  srcProto : Int
  srcCp : String
  dstId : String
  denom : String
  deriving Repr, DecidableEq, Inhabited

/-- Key of a dispatched-counts entry. -/
structure CntKey where
  srcProto : Int
  srcCp : String
  dstProto : Int
  dstCp : String
  deriving Repr, DecidableEq, Inhabited

/-- The orbiter module's store. Lists are kept in the byte order of the collections key encoding. -/
structure OrbState where
  pausedProtocols : List Int := []
  pausedCrossChains : List (Int × String) := []
  pausedActions : List Int := []
  params : Option Nat := none            -- max_passthrough_payload_size; none = item never set
  amounts : List (AmtKey × (Int × Int)) := []
  counts : List (CntKey × Nat) := []
  deriving Repr, DecidableEq, Inhabited

inductive Hook where
  | noop
  | igp (denom : String) (domain : Nat) (rate price overhead : Nat)
  deriving Repr, DecidableEq, Inhabited

/-- External-module state read by the receive path. -/
structure ExtState where
  blocked : Addr → Bool
  recvEnabled : Bool := true
  totalEscrow : String → Nat
  mintingDenom : String := "uusdc"
  ftfPaused : Bool := false
  blacklisted : Addr → Bool := fun _ => false
  cctpBurnPaused : Bool := false
  cctpSendPaused : Bool := false
  cctpDomain : Nat → Bool
  cctpBurnLimit : Option Nat := none
  hypTokens : List (Bytes × String) := []
  hypRouters : List (Bytes × Nat × Nat) := []
  hypHook : Hook := .noop
  /-- every gas paymaster ever created, in creation order (the k-th one has internal id k: the no-op hook of the set-up is 0) -/
  hypIgps : List Hook := []
  /-- bank `SendEnabled` switched off for a denomination (it governs `MsgSend` only: the internal route) -/
  sendDisabled : String → Bool := fun _ => false

structure World where
  orb : OrbState
  bank : Ledger
  ext : ExtState

/-- Static configuration: addresses and wiring facts (regenerated from the built code). -/
structure Cfg where
  hrp : String
  orbAddr : Addr
  dustAddr : Addr
  authority : String
  transferModule : Addr
  cctpModule : Addr
  ftfModule : Addr
  warpModule : Addr
  hypModule : Addr
  escrow : String → String → Addr        -- (port, channel) ↦ escrow account
  voucherDenom : String → String          -- full trace path ↦ bank denom of the voucher

/-- Fault oracle: does the k-th call (1-based) of a site fail? -/
abbrev Faults := String → Nat → Bool

def noFaults : Faults := fun _ _ => false

end Orbiter
