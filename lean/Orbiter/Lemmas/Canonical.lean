import Orbiter.Lemmas.Sorted
/-!
The store is canonical: a list kept strictly sorted is determined by its members, a map kept sorted by key is determined by its
lookups. Hence two reachable stores with the same content are the same store, whatever the order of the operations that built them.
-/
namespace Orbiter
open Orbiter

/-- Two strictly sorted lists with the same members are equal. -/
theorem sorted_ext {α} (lt : α → α → Bool) (hirr : ∀ a, lt a a = false) (hasym : ∀ a b, lt a b = true → lt b a = false) :
    ∀ (l₁ l₂ : List α), SortedBy lt l₁ → SortedBy lt l₂ → (∀ x, x ∈ l₁ ↔ x ∈ l₂) → l₁ = l₂
  | [], [], _, _, _ => rfl
  | [], y :: ys, _, _, h => by have := (h y).mpr List.mem_cons_self; cases this
  | x :: xs, [], _, _, h => by have := (h x).mp List.mem_cons_self; cases this
  | x :: xs, y :: ys, h1, h2, h => by
    unfold SortedBy at h1 h2
    rw [List.pairwise_cons] at h1 h2
    have hx : x ∉ xs := fun hm => by have := h1.1 x hm; rw [hirr] at this; cases this
    have hy : y ∉ ys := fun hm => by have := h2.1 y hm; rw [hirr] at this; cases this
    have hxy : x = y := by
      rcases List.mem_cons.mp ((h x).mp List.mem_cons_self) with e | hm
      · exact e
      · rcases List.mem_cons.mp ((h y).mpr List.mem_cons_self) with e | hm'
        · exact e.symm
        · have a1 := h2.1 x hm
          have a2 := h1.1 y hm'
          rw [hasym _ _ a1] at a2; cases a2
    subst hxy
    have htl : ∀ z, z ∈ xs ↔ z ∈ ys := by
      intro z
      constructor
      · intro hz
        rcases List.mem_cons.mp ((h z).mp (List.mem_cons_of_mem _ hz)) with e | hm
        · subst e; exact absurd hz hx
        · exact hm
      · intro hz
        rcases List.mem_cons.mp ((h z).mpr (List.mem_cons_of_mem _ hz)) with e | hm
        · subst e; exact absurd hz hy
        · exact hm
    rw [sorted_ext lt hirr hasym xs ys h1.2 h2.2 htl]

/-- Two maps sorted by key (hence with unique keys) that answer every lookup alike are equal. -/
theorem map_ext_of_lookup {κ ν} [DecidableEq κ] (lt : κ → κ → Bool) (hirr : ∀ a, lt a a = false) (hasym : ∀ a b, lt a b = true → lt b a = false)
    (hne : ∀ v : ν, ∃ d, d ≠ v)
    (m₁ m₂ : List (κ × ν)) (h1 : SortedBy lt (m₁.map (·.1))) (h2 : SortedBy lt (m₂.map (·.1)))
    (n1 : (m₁.map (·.1)).Nodup) (n2 : (m₂.map (·.1)).Nodup)
    (hl : ∀ k d, lookupD m₁ k d = lookupD m₂ k d) : m₁ = m₂ := by
  have key : ∀ (a b : List (κ × ν)), (a.map (·.1)).Nodup → (∀ k d, lookupD a k d = lookupD b k d) → ∀ e, e ∈ a → e ∈ b := by
    intro a b na hab e he
    obtain ⟨d, hd⟩ := hne e.2
    have hv := lookupD_of_mem a na e he d
    rw [hab] at hv
    rcases lookupD_mem_or_default b e.1 d with h | ⟨e', hm, hk, hv'⟩
    · rw [hv] at h; exact absurd h.symm hd
    · rw [hv] at hv'
      have : e' = e := Prod.ext hk hv'
      rw [← this]; exact hm
  apply sorted_ext (fun p q : κ × ν => lt p.1 q.1) (fun a => hirr a.1) (fun a b => hasym a.1 b.1) m₁ m₂
  · unfold SortedBy at h1 ⊢; rw [List.pairwise_map] at h1; exact h1
  · unfold SortedBy at h2 ⊢; rw [List.pairwise_map] at h2; exact h2
  · intro e
    exact ⟨key m₁ m₂ n1 hl e, key m₂ m₁ n2 (fun k d => (hl k d).symm) e⟩

theorem intLt_irrefl (a : Int) : intLt a a = false := by simp [intLt]
theorem intLt_asymm (a b : Int) (h : intLt a b = true) : intLt b a = false := by
  simp only [intLt, decide_eq_true_eq, decide_eq_false_iff_not] at *; omega
theorem ccLt_irrefl (a : Int × String) : ccLt a a = false := bytesLt_irrefl _
theorem ccLt_asymm (a b : Int × String) (h : ccLt a b = true) : ccLt b a = false := bytesLt_asymm h
theorem amtLt_irrefl (a : AmtKey) : amtLt a a = false := bytesLt_irrefl _
theorem amtLt_asymm (a b : AmtKey) (h : amtLt a b = true) : amtLt b a = false := bytesLt_asymm h
theorem cntLt_irrefl (a : CntKey) : cntLt a a = false := bytesLt_irrefl _
theorem cntLt_asymm (a b : CntKey) (h : cntLt a b = true) : cntLt b a = false := bytesLt_asymm h

theorem mem_iff_of_contains {α} [BEq α] [LawfulBEq α] {l₁ l₂ : List α} (h : ∀ q, l₁.contains q = l₂.contains q) (x : α) : x ∈ l₁ ↔ x ∈ l₂ := by
  have := h x
  constructor
  · intro hx
    have h1 : l₁.contains x = true := by simpa using hx
    rw [this] at h1; simpa using h1
  · intro hx
    have h1 : l₂.contains x = true := by simpa using hx
    rw [← this] at h1; simpa using h1

/-- **The store is a function of its content.** Two stores that satisfy the invariant, are sorted (every reachable store is: `run_good`)
and are observationally equivalent have the very same pause lists and statistics lists. -/
theorem OrbState.lists_eq_of_equiv {a b : OrbState} (ha : a.Good) (hb : b.Good) (he : a.Equiv b) :
    a.pausedProtocols = b.pausedProtocols ∧ a.pausedCrossChains = b.pausedCrossChains ∧ a.pausedActions = b.pausedActions ∧
    a.amounts = b.amounts ∧ a.counts = b.counts := by
  refine ⟨?_, ?_, ?_, ?_, ?_⟩
  · exact sorted_ext intLt intLt_irrefl intLt_asymm _ _ ha.2.pp hb.2.pp (mem_iff_of_contains he.pp)
  · exact sorted_ext ccLt ccLt_irrefl ccLt_asymm _ _ ha.2.pc hb.2.pc (mem_iff_of_contains he.pc)
  · exact sorted_ext intLt intLt_irrefl intLt_asymm _ _ ha.2.pa hb.2.pa (mem_iff_of_contains he.pa)
  · exact map_ext_of_lookup amtLt amtLt_irrefl amtLt_asymm (fun v => ⟨(v.1 + 1, v.2), fun h => by
      have := congrArg Prod.fst h; simp only at this; omega⟩) _ _ ha.2.amt hb.2.amt ha.1.amt_keys hb.1.amt_keys he.amounts
  · exact map_ext_of_lookup cntLt cntLt_irrefl cntLt_asymm (fun v => ⟨v + 1, by omega⟩) _ _ ha.2.cnt hb.2.cnt ha.1.cnt_keys hb.1.cnt_keys he.counts

end Orbiter
