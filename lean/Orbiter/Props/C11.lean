/-
  C11 — Coins already on the orbiter account never alter, fund or block a transfer.
  Method: a *perturbation* `P` adds coins `δ` to balances the receive path never debits (the orbiter's
  balances in other denominations than the transferred one, and the dust collector's balance) and prefixes
  the records of calls and moves. Under the empty fault oracle every stage after the sweep commutes with
  `P`: `stage (P c) = (stage c).map P`. Hence two executions of the same transfer that differ only in what
  was sitting on the orbiter account return the same result class at every stage (ok / the same error /
  the same panic), the same attributes, requests and events; their ledgers differ exactly by `δ`.
  The one place where it fails is the known finding: a Hyperlane default hook (IGP) that charges gas in
  another denomination debits the orbiter's balance of that denomination — excluded here by `IgpOk`.
-/
import Orbiter.Lemmas.Perturb
import Orbiter.Lemmas.Recv
namespace Orbiter.C11
open Orbiter

def sweepSite : String := "bank.SendCoinsFromModuleToModule"

/-- The perturbation touches only what the path after the sweep never debits. -/
structure Ok (P : Pert) (cfg : Cfg) (D : String) : Prop where
  orbD : P.δ cfg.orbAddr D = 0
  cctp : ∀ d, P.δ cfg.cctpModule d = 0
  ftf : ∀ d, P.δ cfg.ftfModule d = 0
  transfer : ∀ d, P.δ cfg.transferModule d = 0
  escrow : ∀ p c d, P.δ (cfg.escrow p c) d = 0
  calls : ∀ x ∈ P.calls, x.1 = sweepSite

theorem Ok.fresh {P : Pert} {cfg : Cfg} {D : String} (h : Ok P cfg D) (site : String) (hs : site ≠ sweepSite) : P.fresh site :=
  fun x hx e => hs (e ▸ h.calls x hx)

/-- No Hyperlane hook — the mailbox default, or any other one a payload may name — charges a denomination that was
perturbed on the orbiter account. -/
def IgpOk (P : Pert) (cfg : Cfg) (e : ExtState) : Prop :=
  ∀ idenom dom r p o, .igp idenom dom r p o ∈ e.hooks → P.δ cfg.orbAddr idenom = 0

theorem comm_cctpDeposit (P : Pert) (cfg : Cfg) (c : Ctx) (amount : Int) (domain : Nat) (mint caller : Bytes) (tok : String)
    (h1 : P.δ cfg.orbAddr tok = 0) (h2 : P.δ cfg.cctpModule tok = 0) (h3 : P.δ cfg.ftfModule tok = 0) :
    cctpDepositForBurn cfg (P.ap c) amount domain mint tok caller = (cctpDepositForBurn cfg c amount domain mint tok caller).map P.ap := by
  unfold cctpDepositForBurn
  simp only [Pert.ap_ext, Pert.send, Pert.burn, h1, h2, h3, Res.map_bind', Res.bind_map', Res.map_ite', Res.map_err',
    Res.bind_err, Res.map_ok', Res.pure_eq]
  rfl

theorem comm_bankMsgSend (P : Pert) (cfg : Cfg) (c : Ctx) (to denom : String) (amt : Int) (h1 : P.δ cfg.orbAddr denom = 0) :
    bankMsgSend cfg (P.ap c) to denom amt = (bankMsgSend cfg c to denom amt).map P.ap := by
  unfold bankMsgSend
  cases accAddressFromBech32 cfg.hrp to with
  | none => rfl
  | some dst =>
    simp only [Pert.ap_ext, Pert.send, h1, Res.map_ite', Res.map_err']

theorem comm_warp (P : Pert) (cfg : Cfg) (c : Ctx) (token hook : Bytes) (domain : Nat) (amount gas feeAmt : Int) (feeDenom : String)
    (h1 : ∀ origin, lookupTok c.ext.hypTokens token = some origin → P.δ cfg.orbAddr origin = 0) (higp : IgpOk P cfg c.ext) :
    warpRemoteTransfer cfg (P.ap c) token domain amount gas feeDenom feeAmt hook =
      (warpRemoteTransfer cfg c token domain amount gas feeDenom feeAmt hook).map P.ap := by
  unfold warpRemoteTransfer
  simp only [Pert.ap_ext]
  cases ht : lookupTok c.ext.hypTokens token with
  | none => rfl
  | some origin =>
    simp only [Res.pure_eq, Res.bind_ok, Pert.send, h1 origin ht, Res.map_bind', Res.bind_map']
    apply Res.bind_congr
    intro c1 hc1
    obtain ⟨b, _, rfl⟩ := Ctx.send_ok hc1
    simp only [Pert.ap_ext]
    cases hr : lookupRouter c.ext.hypRouters token domain with
    | none => rfl
    | some rgas =>
      simp only [Res.bind_ok, Res.map_ite', Res.bind_panic, Res.bind_err, Res.map_panic', Res.map_err']
      cases hk : hookFor c.ext hook with
      | err e => rfl
      | panic e => rfl
      | ok hkv =>
        simp only [Res.bind_ok]
        cases hkv with
        | noop => simp only [Res.pure_eq, Res.map_ok']
        | igp idenom idomain rate price overhead =>
          have hz := higp idenom idomain rate price overhead (hookFor_mem hk)
          simp only [Pert.send, hz, Res.map_ite', Res.map_err', Res.map_panic']


theorem ne_sweep_1 : "bank.SendCoins" ≠ sweepSite := by decide
theorem ne_sweep_2 : "event.Emit" ≠ sweepSite := by decide
theorem ne_sweep_3 : "cctp.DepositForBurn" ≠ sweepSite := by decide
theorem ne_sweep_4 : "cctp.DepositForBurnWithCaller" ≠ sweepSite := by decide
theorem ne_sweep_5 : "warp.Token" ≠ sweepSite := by decide
theorem ne_sweep_6 : "warp.RemoteTransfer" ≠ sweepSite := by decide
theorem ne_sweep_7 : "bank.Send" ≠ sweepSite := by decide
theorem ne_sweep_8 : "app.OnRecvPacket" ≠ sweepSite := by decide

theorem comm_payFees (P : Pert) (orb : Addr) (denom : String) (hf : P.fresh "bank.SendCoins") (h1 : P.δ orb denom = 0)
    (l : List (Bytes × Int)) (c : Ctx) : payFees noFaults orb denom l (P.ap c) = (payFees noFaults orb denom l c).map P.ap := by
  induction l generalizing c with
  | nil => rfl
  | cons v rest ih =>
    simp only [payFees, P.call c _ hf, Res.map_bind', Res.bind_map', Pert.send, h1]
    apply Res.bind_congr; intro c1 _
    apply Res.bind_congr; intro c2 _
    exact ih c2

def liftP (P : Pert) (r : Ctx × TransferAttrs) : Ctx × TransferAttrs := (P.ap r.1, r.2)

theorem comm_feeController (P : Pert) (cfg : Cfg) (c : Ctx) (t : TransferAttrs) (a : Action) (hok : Ok P cfg t.dstDenom) :
    feeController cfg noFaults (P.ap c) t a = (feeController cfg noFaults c t a).map (liftP P) := by
  unfold feeController
  simp only
  split
  case h_2 => rfl
  case h_3 => rfl
  simp only [Res.pure_eq, Res.bind_ok, Res.bind_map']
  apply Res.bind_congr; intro _ _
  apply Res.bind_congr; intro fees _
  simp only [Res.map_ite', Res.bind_err, Res.map_err', comm_payFees P cfg.orbAddr t.dstDenom (hok.fresh _ ne_sweep_1) hok.orbD,
    Res.map_bind', Res.bind_map', P.emit _ _ (hok.fresh _ ne_sweep_2), Res.map_ok', liftP]

theorem comm_executor (P : Pert) (cfg : Cfg) (π : OneofOrder) (o : OrbState) (c : Ctx) (t : TransferAttrs) (a : Action) (hok : Ok P cfg t.dstDenom) :
    executorHandle (appWiring cfg π) noFaults o (P.ap c) t a = (executorHandle (appWiring cfg π) noFaults o c t a).map (liftP P) := by
  unfold executorHandle
  simp only [Res.bind_map']
  apply Res.bind_congr; intro _ _
  simp only [Res.map_ite', Res.bind_err, Res.map_err', appWiring, appActionRouter]
  split
  · rfl
  · split
    · simp only [Res.map_err']
    · rename_i ctl hctl
      split at hctl
      · simp only [Option.some.injEq] at hctl; subst hctl
        exact comm_feeController P cfg c t a hok
      · cases hctl

/-- The fee controller — the only action controller of the chain — keeps the denomination. -/
theorem executor_keeps_denom {cfg : Cfg} {π : OneofOrder} {φ : Faults} {o : OrbState} {c c' : Ctx} {t t' : TransferAttrs} {a : Action}
    (h : executorHandle (appWiring cfg π) φ o c t a = .ok (c', t')) : t'.dstDenom = t.dstDenom := by
  unfold executorHandle at h
  obtain ⟨_, _, h⟩ := Res.bind_eq_ok.mp h
  simp only [Res.guard_bind_eq_ok] at h
  obtain ⟨_, h⟩ := h
  simp only [appWiring, appActionRouter] at h
  split at h
  · cases h
  · rename_i hctl
    split at hctl
    · simp only [Option.some.injEq] at hctl; subst hctl
      unfold feeController at h
      simp only at h
      split at h
      case h_2 => simp at h
      case h_3 => simp at h
      simp only [Res.pure_eq, Res.bind_ok] at h
      obtain ⟨_, _, h⟩ := Res.bind_eq_ok.mp h
      obtain ⟨fees, _, h⟩ := Res.bind_eq_ok.mp h
      simp only [Res.guard_bind_eq_ok] at h
      obtain ⟨_, h⟩ := h
      obtain ⟨c1, _, h⟩ := Res.bind_eq_ok.mp h
      obtain ⟨c2, _, h⟩ := Res.bind_eq_ok.mp h
      simp only [Res.ok.injEq, Prod.mk.injEq] at h
      obtain ⟨_, rfl⟩ := h
      rfl
    · cases hctl

theorem comm_dispatchActions (P : Pert) (cfg : Cfg) (π : OneofOrder) (o : OrbState) (acts : List Action) (c : Ctx) (t : TransferAttrs)
    (hok : Ok P cfg t.dstDenom) :
    dispatchActions (appWiring cfg π) noFaults o acts (P.ap c) t = (dispatchActions (appWiring cfg π) noFaults o acts c t).map (liftP P) := by
  induction acts generalizing c t with
  | nil => rfl
  | cons x rest ih =>
    simp only [dispatchActions, comm_executor P cfg π o c t x hok, Res.map_bind', Res.bind_map']
    apply Res.bind_congr
    intro r hr
    obtain ⟨c1, t1⟩ := r
    simp only [liftP]
    exact ih c1 t1 (by rw [executor_keeps_denom hr]; exact hok)


theorem Pert.mint_comm (P : Pert) (c : Ctx) (dst : Addr) (d : String) (amt : Nat) : (P.ap c).mint dst d amt = P.ap (c.mint dst d amt) := by
  simp only [Ctx.mint, Pert.ap, Ledger.mint, Ledger.setBal, List.append_assoc, Ctx.mk.injEq, Ledger.mk.injEq, and_true, true_and]
  funext a x
  by_cases h : a = dst ∧ x = d
  · obtain ⟨rfl, rfl⟩ := h; simp; omega
  · simp [h]

theorem comm_cctpController (P : Pert) (cfg : Cfg) (c : Ctx) (t : TransferAttrs) (f : Forwarding) (hok : Ok P cfg t.dstDenom) :
    cctpController cfg noFaults (P.ap c) t f = (cctpController cfg noFaults c t f).map P.ap := by
  unfold cctpController
  simp only
  cases f.attrs with
  | none => rfl
  | some a =>
    simp only [Res.pure_eq, Res.bind_ok]
    cases a with
    | cctp domain mint caller =>
      simp only [Res.bind_map']
      apply Res.bind_congr; intro _ _
      rw [← Pert.ap_with_reqs]
      simp only [Pert.ap_reqs]
      by_cases hc : caller.isEmpty = true
      · simp only [hc, ↓reduceIte, P.call _ _ (hok.fresh _ ne_sweep_3), Res.map_bind',
          comm_cctpDeposit P cfg _ _ _ _ _ _ hok.orbD (hok.cctp _) (hok.ftf _)]
      · simp only [hc, Bool.false_eq_true, ↓reduceIte, P.call _ _ (hok.fresh _ ne_sweep_4), Res.map_bind',
          comm_cctpDeposit P cfg _ _ _ _ _ _ hok.orbD (hok.cctp _) (hok.ftf _)]
    | hyp => rfl
    | internal => rfl
    | fee => rfl

theorem comm_hypController (P : Pert) (cfg : Cfg) (c : Ctx) (t : TransferAttrs) (f : Forwarding) (hok : Ok P cfg t.dstDenom)
    (higp : IgpOk P cfg c.ext) :
    hypController cfg noFaults (P.ap c) t f = (hypController cfg noFaults c t f).map P.ap := by
  unfold hypController
  simp only
  cases f.attrs with
  | none => rfl
  | some a =>
    simp only [Res.pure_eq, Res.bind_ok]
    cases a with
    | hyp tok domain rec_ hook hmeta gas feeDenom feeAmt =>
      simp only [Res.bind_map']
      apply Res.bind_congr; intro _ _
      apply Res.bind_congr; intro _ _
      simp only [P.call _ _ (hok.fresh _ ne_sweep_5), Res.map_bind']
      apply Res.bind_congr; intro c1 hc1
      have he1 : c1.ext = c.ext := by rw [(Ctx.call_ok hc1).1]
      simp only [Pert.ap_ext]
      cases ht : lookupTok c1.ext.hypTokens tok with
      | none => rfl
      | some origin =>
        simp only [Res.bind_ok, Res.map_ite', Res.bind_err, Res.map_err']
        by_cases ho : (origin != t.dstDenom) = true
        · simp only [ho, ↓reduceIte]
        · simp only [ho, Bool.false_eq_true, ↓reduceIte]
          have horig : origin = t.dstDenom := by simpa using ho
          change (Ctx.call noFaults (P.ap { c1 with reqs := c1.reqs ++ [Req.warp "orbiter" tok domain rec_ t.dstAmount (if hook.isEmpty then none else some hook) gas feeDenom feeAmt hmeta] }) "warp.RemoteTransfer" >>= fun c => warpRemoteTransfer cfg c tok domain t.dstAmount gas feeDenom feeAmt hook) = _
          simp only [P.call _ _ (hok.fresh _ ne_sweep_6), Res.map_bind', Res.bind_map']
          apply Res.bind_congr; intro c2 hc2
          have he2 : c2.ext = c.ext := by rw [(Ctx.call_ok hc2).1]; exact he1
          apply comm_warp
          · intro origin' ho'
            rw [he2, ← he1, ht] at ho'
            simp only [Option.some.injEq] at ho'
            rw [← ho', horig]; exact hok.orbD
          · rw [he2]; exact higp
    | cctp => rfl
    | internal => rfl
    | fee => rfl

theorem comm_internalController (P : Pert) (cfg : Cfg) (c : Ctx) (t : TransferAttrs) (f : Forwarding) (hok : Ok P cfg t.dstDenom) :
    internalController cfg noFaults (P.ap c) t f = (internalController cfg noFaults c t f).map P.ap := by
  unfold internalController
  simp only
  cases f.attrs with
  | none => rfl
  | some a =>
    simp only [Res.pure_eq, Res.bind_ok]
    cases a with
    | internal recipient =>
      simp only [Res.bind_map']
      apply Res.bind_congr; intro _ _
      apply Res.bind_congr; intro _ _
      apply Res.bind_congr; intro _ _
      rw [← Pert.ap_with_reqs]
      simp only [Pert.ap_reqs, P.call _ _ (hok.fresh _ ne_sweep_7), Res.map_bind', comm_bankMsgSend P cfg _ _ _ _ hok.orbD]
    | cctp => rfl
    | hyp => rfl
    | fee => rfl

theorem comm_forwarder (P : Pert) (cfg : Cfg) (π : OneofOrder) (o : OrbState) (c : Ctx) (t : TransferAttrs) (f : Forwarding)
    (hok : Ok P cfg t.dstDenom) (higp : IgpOk P cfg c.ext) :
    forwarderHandle (appWiring cfg π) noFaults o (P.ap c) t f = (forwarderHandle (appWiring cfg π) noFaults o c t f).map P.ap := by
  unfold forwarderHandle
  simp only [Res.bind_map']
  apply Res.bind_congr; intro _ _
  cases f.attrs with
  | none => rfl
  | some a =>
    have hz : P.δ (appWiring cfg π).cfg.orbAddr t.dstDenom = 0 := hok.orbD
    simp only [Res.pure_eq, Res.bind_ok, Pert.ap_bal, hz, Nat.add_zero]
    by_cases g1 : o.pausedProtocols.contains f.protocolId = true
    · simp only [g1, ↓reduceIte, Res.bind_err, Res.map_err']
    · simp only [g1, Bool.false_eq_true, ↓reduceIte, Res.bind_ok]
      by_cases g2 : (!crossChainValid f.protocolId a.counterpartyID) = true
      · simp only [g2, ↓reduceIte, Res.bind_err, Res.map_err']
      · simp only [g2, Bool.false_eq_true, ↓reduceIte, Res.bind_ok]
        by_cases g3 : o.pausedCrossChains.contains (f.protocolId, a.counterpartyID) = true
        · simp only [g3, ↓reduceIte, Res.bind_err, Res.map_err']
        · simp only [g3, Bool.false_eq_true, ↓reduceIte, Res.bind_ok]
          by_cases g4 : ((c.bank.bal (appWiring cfg π).cfg.orbAddr t.dstDenom : Int) != t.dstAmount) = true
          · simp only [g4, ↓reduceIte, Res.bind_err, Res.map_err']
          · simp only [g4, Bool.false_eq_true, ↓reduceIte, Res.bind_ok]
            simp only [appWiring, appForwardingRouter]
            split
            · rfl
            · rename_i ctl hctl
              split at hctl
              · cases hctl
              · split at hctl
                · simp only [Option.some.injEq] at hctl; subst hctl; exact comm_cctpController P cfg c t f hok
                · split at hctl
                  · simp only [Option.some.injEq] at hctl; subst hctl; exact comm_hypController P cfg c t f hok higp
                  · split at hctl
                    · simp only [Option.some.injEq] at hctl; subst hctl; exact comm_internalController P cfg c t f hok
                    · cases hctl


/-! ### the external state is not touched by the actions -/

theorem call_ext {φ : Faults} {c c' : Ctx} {s : String} (h : Ctx.call φ c s = .ok c') : c'.ext = c.ext := by
  rw [(Ctx.call_ok h).1]

theorem send_ext {c c' : Ctx} {a b : Addr} {d tag : String} {n : Nat} (h : c.send a b d n tag = .ok c') : c'.ext = c.ext := by
  obtain ⟨_, _, rfl⟩ := Ctx.send_ok h; rfl

theorem emit_ext {φ : Faults} {c c' : Ctx} {ev : String} (h : c.emit φ ev = .ok c') : c'.ext = c.ext := by
  rw [Ctx.emit_ok h]

theorem payFees_ext {φ : Faults} {orb : Addr} {d : String} (l : List (Bytes × Int)) (c c' : Ctx) (h : payFees φ orb d l c = .ok c') :
    c'.ext = c.ext := by
  induction l generalizing c with
  | nil => simp only [payFees, Res.ok.injEq] at h; rw [h]
  | cons v rest ih =>
    simp only [payFees] at h
    obtain ⟨c1, h1, h⟩ := Res.bind_eq_ok.mp h
    obtain ⟨c2, h2, h⟩ := Res.bind_eq_ok.mp h
    rw [ih c2 h, send_ext h2, call_ext h1]

theorem dispatchActions_ext {cfg : Cfg} {π : OneofOrder} {φ : Faults} {o : OrbState} (acts : List Action) (c c' : Ctx) (t t' : TransferAttrs)
    (h : dispatchActions (appWiring cfg π) φ o acts c t = .ok (c', t')) : c'.ext = c.ext ∧ t'.dstDenom = t.dstDenom := by
  induction acts generalizing c t with
  | nil => simp only [dispatchActions, Res.ok.injEq, Prod.mk.injEq] at h; obtain ⟨rfl, rfl⟩ := h; exact ⟨rfl, rfl⟩
  | cons x rest ih =>
    simp only [dispatchActions] at h
    obtain ⟨r1, hx, h⟩ := Res.bind_eq_ok.mp h
    obtain ⟨c1, t1⟩ := r1
    obtain ⟨i1, i2⟩ := ih c1 t1 h
    have hd := executor_keeps_denom hx
    refine ⟨?_, i2.trans hd⟩
    rw [i1]
    unfold executorHandle at hx
    obtain ⟨_, _, hx⟩ := Res.bind_eq_ok.mp hx
    simp only [Res.guard_bind_eq_ok] at hx
    obtain ⟨_, hx⟩ := hx
    simp only [appWiring, appActionRouter] at hx
    split at hx
    · cases hx
    · rename_i hctl
      split at hctl
      · simp only [Option.some.injEq] at hctl; subst hctl
        unfold feeController at hx
        simp only at hx
        split at hx
        case h_2 => simp at hx
        case h_3 => simp at hx
        simp only [Res.pure_eq, Res.bind_ok] at hx
        obtain ⟨_, _, hx⟩ := Res.bind_eq_ok.mp hx
        obtain ⟨fees, _, hx⟩ := Res.bind_eq_ok.mp hx
        simp only [Res.guard_bind_eq_ok] at hx
        obtain ⟨_, hx⟩ := hx
        obtain ⟨c2, h2, hx⟩ := Res.bind_eq_ok.mp hx
        obtain ⟨c3, h3, hx⟩ := Res.bind_eq_ok.mp hx
        simp only [Res.ok.injEq, Prod.mk.injEq] at hx
        obtain ⟨rfl, _⟩ := hx
        rw [emit_ext h3, payFees_ext _ _ _ h2]
      · cases hctl

/-! ### dispatch and the wrapped application -/

def liftP3 (P : Pert) (r : Ctx × TransferAttrs × OrbState) : Ctx × TransferAttrs × OrbState := (P.ap r.1, r.2.1, r.2.2)

theorem comm_dispatchPayload (P : Pert) (cfg : Cfg) (π : OneofOrder) (o : OrbState) (c : Ctx) (t : TransferAttrs) (p : Payload)
    (hok : Ok P cfg t.dstDenom) (higp : IgpOk P cfg c.ext) :
    dispatchPayload (appWiring cfg π) noFaults o (P.ap c) t p = (dispatchPayload (appWiring cfg π) noFaults o c t p).map (liftP3 P) := by
  unfold dispatchPayload
  simp only [Res.bind_map']
  apply Res.bind_congr; intro _ _
  simp only [comm_dispatchActions P cfg π o p.preActions c t hok, Res.map_bind']
  apply Res.bind_congr
  intro r hr
  obtain ⟨c1, t1⟩ := r
  obtain ⟨he, hd⟩ := dispatchActions_ext _ _ _ _ _ hr
  simp only [liftP]
  cases p.forwarding with
  | none => rfl
  | some f =>
    simp only [Res.pure_eq, Res.bind_ok]
    rw [comm_forwarder P cfg π o c1 t1 f (by rw [hd]; exact hok) (by rw [he]; exact higp)]
    simp only [Res.map_bind', Res.bind_map', Res.map_ok', liftP3]

def liftP2 (P : Pert) (r : Ctx × OrbState) : Ctx × OrbState := (P.ap r.1, r.2)

theorem comm_processPayload (P : Pert) (cfg : Cfg) (π : OneofOrder) (o : OrbState) (c : Ctx) (t : TransferAttrs) (p : Payload)
    (hok : Ok P cfg t.dstDenom) (higp : IgpOk P cfg c.ext) :
    processPayload (appWiring cfg π) noFaults o (P.ap c) t p = (processPayload (appWiring cfg π) noFaults o c t p).map (liftP2 P) := by
  unfold processPayload
  simp only [comm_dispatchPayload P cfg π o c t p hok higp, Res.map_bind', Res.bind_map']
  apply Res.bind_congr
  intro r _
  obtain ⟨c1, t1, o1⟩ := r
  simp only [liftP3, P.emit _ _ (hok.fresh _ ne_sweep_2), Res.map_bind', Res.map_ok', Res.pure_eq, liftP2]

theorem comm_ics20 (P : Pert) (cfg : Cfg) (D : String) (c : Ctx) (pkt : Packet) (hok : Ok P cfg D) :
    ics20Recv cfg (P.ap c) pkt = (ics20Recv cfg c pkt).map P.ap := by
  unfold ics20Recv
  cases decFTPD pkt.data with
  | none => rfl
  | some d =>
    simp only
    cases newIntFromString d.amount with
    | none => rfl
    | some amt =>
      simp only [Res.pure_eq, Res.bind_ok, Pert.ap_ext, Res.map_ite', Res.bind_err, Res.map_err']
      cases accAddressFromBech32 cfg.hrp d.receiver with
      | none => simp only [Res.bind_err, Res.map_err']
      | some r =>
        simp only [Res.bind_ok, Pert.send, hok.escrow, hok.transfer, Res.map_bind', Res.bind_map', Res.map_ite', Res.map_err',
          Res.bind_err, Pert.ap_ext, Res.map_panic', Res.map_pure', Pert.mint_comm, Res.map_ok']
        rfl

theorem comm_wrappedApp (P : Pert) (cfg : Cfg) (π : OneofOrder) (D : String) (c : Ctx) (pkt : Packet) (hok : Ok P cfg D) :
    wrappedApp (appWiring cfg π) noFaults (P.ap c) pkt = (wrappedApp (appWiring cfg π) noFaults c pkt).map P.ap := by
  unfold wrappedApp
  simp only [P.call _ _ (hok.fresh _ ne_sweep_8), Res.map_bind', Res.bind_map']
  apply Res.bind_congr
  intro c1 _
  exact comm_ics20 P cfg D c1 pkt hok


/-! ### the two executions -/

/-- The accounts the proof distinguishes. -/
structure Distinct (cfg : Cfg) : Prop where
  dust : cfg.dustAddr ≠ cfg.orbAddr
  cctp : cfg.cctpModule ≠ cfg.orbAddr ∧ cfg.cctpModule ≠ cfg.dustAddr
  ftf : cfg.ftfModule ≠ cfg.orbAddr ∧ cfg.ftfModule ≠ cfg.dustAddr
  transfer : cfg.transferModule ≠ cfg.orbAddr ∧ cfg.transferModule ≠ cfg.dustAddr
  escrow : ∀ p c, cfg.escrow p c ≠ cfg.orbAddr ∧ cfg.escrow p c ≠ cfg.dustAddr

/-- Coverage obligation for "coins already on the account never alter a transfer": the module reads the orbiter's balance one
denomination at a time (`GetBalance`) and has no other read of it (`GetAllBalances`, `SpendableCoins`, …) — the reads the
perturbation argument (`Lemmas/Perturb.lean`) accounts for are all there are. -/
theorem pin_bank_reads :
    Gen.externalSurface.lookup "types.BankKeeper" =
      some ["GetBalance func(context.Context, types.AccAddress, string) types.Coin",
            "SendCoins func(context.Context, types.AccAddress, types.AccAddress, types.Coins) error"] := by decide +kernel

/-- Coverage obligation: the module accounts of the built application are pairwise different. -/
theorem pin_distinct :
    Gen.dustCollectorAddress ≠ Gen.moduleAddress ∧
    Gen.cctpModuleAddress ≠ Gen.moduleAddress ∧ Gen.cctpModuleAddress ≠ Gen.dustCollectorAddress ∧
    Gen.ftfModuleAddress ≠ Gen.moduleAddress ∧ Gen.ftfModuleAddress ≠ Gen.dustCollectorAddress ∧
    Gen.transferModuleAddress ≠ Gen.moduleAddress ∧ Gen.transferModuleAddress ≠ Gen.dustCollectorAddress := by decide

/-- Coverage obligation: in the built application the dust collector is a module account that cannot receive transfers
from users (blocked address with an account permission entry), and the orbiter account is not blocked — ICS-20 must be able to
credit it. -/
theorem pin_dust_collector_blocked :
    Gen.dustCollectorBlocked = true ∧ Gen.dustCollectorHasAccountPermission = true ∧ Gen.orbiterBlocked = false ∧
    Gen.blockedAddresses.contains Gen.dustCollectorAddress = true ∧ Gen.blockedAddresses.contains Gen.moduleAddress = false := by decide

/-- The world with `ε d` more coins of every denomination `d` on the orbiter account. -/
def withExtra (cfg : Cfg) (w : World) (ε : String → Nat) : World :=
  { w with bank := { w.bank with bal := fun a d => w.bank.bal a d + (if a = cfg.orbAddr then ε d else 0) } }

/-- Where the extra coins are after the sweep: the transferred denomination on the dust collector, the
others still on the orbiter account. -/
def extraAfter (cfg : Cfg) (D : String) (ε : String → Nat) : Addr → String → Nat := fun a d =>
  if a = cfg.orbAddr ∧ d ≠ D then ε d else if a = cfg.dustAddr ∧ d = D then ε D else 0

/-- What the hook leaves: records only of the sweep, the orbiter's balance of `D` at zero and on the dust
collector, everything else untouched. -/
theorem hook_result {cfg : Cfg} {π : OneofOrder} (hd : Distinct cfg) {o : OrbState} {w : World} {t : TransferAttrs} {p : Payload} {c1 : Ctx}
    (h : beforeTransferHook (appWiring cfg π) noFaults o (ctxOf w) t p = .ok c1) :
    c1.ext = w.ext ∧ c1.reqs = [] ∧ c1.events = [] ∧ (∀ x ∈ c1.calls, x.1 = sweepSite) ∧ c1.bank.supply = w.bank.supply ∧
    (∀ a d, c1.bank.bal a d =
      if a = cfg.orbAddr ∧ d = t.dstDenom then 0
      else if a = cfg.dustAddr ∧ d = t.dstDenom then w.bank.bal a d + w.bank.bal cfg.orbAddr t.dstDenom
      else w.bank.bal a d) := by
  unfold beforeTransferHook at h
  simp only [Res.guard_bind_eq_ok] at h
  obtain ⟨_, h⟩ := h
  split at h
  · rename_i hz
    simp only [Res.pure_eq, Res.ok.injEq] at h
    subst h
    have hz' : w.bank.bal cfg.orbAddr t.dstDenom = 0 := by simpa [ctxOf, appWiring] using hz
    refine ⟨rfl, rfl, rfl, (fun x hx => by cases hx), rfl, ?_⟩
    intro a d
    simp only [ctxOf]
    by_cases h1 : a = cfg.orbAddr ∧ d = t.dstDenom
    · obtain ⟨rfl, rfl⟩ := h1; simp [hz']
    · by_cases h2 : a = cfg.dustAddr ∧ d = t.dstDenom
      · obtain ⟨rfl, rfl⟩ := h2
        have : ¬ (cfg.dustAddr = cfg.orbAddr) := hd.dust
        simp [this, hz']
      · simp [h1, h2]
  · obtain ⟨c0, hc0, h⟩ := Res.bind_eq_ok.mp h
    obtain ⟨rfl, _⟩ := Ctx.call_ok hc0
    obtain ⟨b, hb, rfl⟩ := Ctx.send_ok h
    simp only [ctxOf, appWiring] at hb ⊢
    refine ⟨trivial, trivial, trivial, ?_, Ledger.send_supply hb, ?_⟩
    · intro x hx
      simp only [List.nil_append, List.mem_singleton] at hx
      rw [hx]; rfl
    · intro a d
      rw [Ledger.send_bal hb a d]
      by_cases hdd : d = t.dstDenom
      · subst hdd
        by_cases h1 : a = cfg.orbAddr
        · subst h1
          have : ¬ (cfg.orbAddr = cfg.dustAddr) := fun e => hd.dust e.symm
          simp [this]
        · by_cases h2 : a = cfg.dustAddr
          · subst h2; simp [h1]
          · simp [h1, h2]
      · simp [hdd]


theorem ics20_hook_same {cfg : Cfg} {c c' : Ctx} {pkt : Packet} (h : ics20Recv cfg c pkt = .ok c') : c'.ext.hooks = c.ext.hooks := by
  unfold ics20Recv at h
  cases hdd : decFTPD pkt.data with
  | none => simp [hdd] at h
  | some d =>
    simp only [hdd] at h
    cases hamt : newIntFromString d.amount with
    | none => simp [hamt] at h
    | some amt =>
      simp only [hamt, Res.pure_eq, Res.bind_ok, Res.guard_bind_eq_ok] at h
      obtain ⟨_, _, _, _, _, h⟩ := h
      cases hr : accAddressFromBech32 cfg.hrp d.receiver with
      | none => simp [hr] at h
      | some r =>
        simp only [hr, Res.bind_ok] at h
        split at h
        · obtain ⟨_, _, h⟩ := Res.bind_eq_ok.mp h
          simp only [Res.guard_bind_eq_ok] at h
          obtain ⟨_, h⟩ := h
          obtain ⟨c1, h1, h⟩ := Res.bind_eq_ok.mp h
          split at h
          · cases h
          · simp only [Res.pure_eq, Res.ok.injEq] at h
            subst h
            simp only [ExtState.hooks]
            rw [send_ext h1]
        · split at h
          · cases h
          · rw [send_ext h]; rfl

theorem ics20_routers_same {cfg : Cfg} {c c' : Ctx} {pkt : Packet} (h : ics20Recv cfg c pkt = .ok c') : c'.ext.hypRouters = c.ext.hypRouters := by
  unfold ics20Recv at h
  cases hdd : decFTPD pkt.data with
  | none => simp [hdd] at h
  | some d =>
    simp only [hdd] at h
    cases hamt : newIntFromString d.amount with
    | none => simp [hamt] at h
    | some amt =>
      simp only [hamt, Res.pure_eq, Res.bind_ok, Res.guard_bind_eq_ok] at h
      obtain ⟨_, _, _, _, _, h⟩ := h
      cases hr : accAddressFromBech32 cfg.hrp d.receiver with
      | none => simp [hr] at h
      | some r =>
        simp only [hr, Res.bind_ok] at h
        split at h
        · obtain ⟨_, _, h⟩ := Res.bind_eq_ok.mp h
          simp only [Res.guard_bind_eq_ok] at h
          obtain ⟨_, h⟩ := h
          obtain ⟨c1, h1, h⟩ := Res.bind_eq_ok.mp h
          split at h
          · cases h
          · simp only [Res.pure_eq, Res.ok.injEq] at h
            subst h
            simp only
            rw [send_ext h1]
        · split at h
          · cases h
          · rw [send_ext h]; rfl

/-- **C11.** Two executions of the same orbiter transfer on the chain's wiring, from worlds that differ only
in coins sitting on the orbiter account (`ε d` more of every denomination `d`), under the empty fault oracle,
when the sweep itself is not refused in either and the Hyperlane hook does not charge a denomination in which
they differ: the same acknowledgement, the same module state (statistics), the same bridge requests and
events; and on success the ledgers differ exactly by the extra coins — those of the transferred denomination
on the dust collector, the others still on the orbiter account. -/
theorem c11_extra_coins_irrelevant (cfg : Cfg) (hd : Distinct cfg) (π : OneofOrder) (w : World) (ε : String → Nat) (pkt : Packet)
    (t : TransferAttrs) (p : Payload) (ha : adaptPacket (appWiring cfg π) pkt = .ok (.orbiter t p))
    (c1 c1' : Ctx)
    (hh : beforeTransferHook (appWiring cfg π) noFaults w.orb (ctxOf w) t p = .ok c1)
    (hh' : beforeTransferHook (appWiring cfg π) noFaults w.orb (ctxOf (withExtra cfg w ε)) t p = .ok c1')
    (higp : ∀ idenom dom r pr ov, .igp idenom dom r pr ov ∈ w.ext.hooks → idenom = t.dstDenom ∨ ε idenom = 0) :
    (ibcRecv (appWiring cfg π) noFaults (withExtra cfg w ε) pkt).ack = (ibcRecv (appWiring cfg π) noFaults w pkt).ack ∧
    (ibcRecv (appWiring cfg π) noFaults (withExtra cfg w ε) pkt).orb = (ibcRecv (appWiring cfg π) noFaults w pkt).orb ∧
    ((ibcRecv (appWiring cfg π) noFaults w pkt).ack.isSuccess = true →
      (ibcRecv (appWiring cfg π) noFaults (withExtra cfg w ε) pkt).ctx.reqs = (ibcRecv (appWiring cfg π) noFaults w pkt).ctx.reqs ∧
      (ibcRecv (appWiring cfg π) noFaults (withExtra cfg w ε) pkt).ctx.events = (ibcRecv (appWiring cfg π) noFaults w pkt).ctx.events ∧
      ∀ a d, (ibcRecv (appWiring cfg π) noFaults (withExtra cfg w ε) pkt).ctx.bank.bal a d =
        (ibcRecv (appWiring cfg π) noFaults w pkt).ctx.bank.bal a d + extraAfter cfg t.dstDenom ε a d) := by
  obtain ⟨e1, r1, v1, k1, s1, b1⟩ := hook_result hd hh
  obtain ⟨e2, r2, v2, k2, s2, b2⟩ := hook_result hd hh'
  -- the common base: the ledger after the sweep of `w`, without records
  let c0 : Ctx := { bank := c1.bank, ext := w.ext }
  let P₁ : Pert := { δ := fun _ _ => 0, calls := c1.calls, moves := c1.moves }
  let P₂ : Pert := { δ := extraAfter cfg t.dstDenom ε, calls := c1'.calls, moves := c1'.moves }
  have hc1 : c1 = P₁.ap c0 := by
    obtain ⟨bank, ext, moves, calls, reqs, events⟩ := c1
    simp only at e1 r1 v1
    subst e1 r1 v1
    simp [Pert.ap, c0, P₁]
  have hc1' : c1' = P₂.ap c0 := by
    obtain ⟨bank', ext', moves', calls', reqs', events'⟩ := c1'
    simp only at e2 r2 v2 s2 b2
    simp only [withExtra] at e2 s2 b2
    subst e2 r2 v2
    have hbank : bank' = { bal := fun a d => c1.bank.bal a d + extraAfter cfg t.dstDenom ε a d, supply := c1.bank.supply } := by
      obtain ⟨bal', sup'⟩ := bank'
      simp only at s2 b2
      simp only [Ledger.mk.injEq]
      refine ⟨?_, by rw [s2, s1]⟩
      funext a d
      rw [b2 a d, b1 a d]
      simp only [extraAfter]
      by_cases h1 : a = cfg.orbAddr
      · subst h1
        have hne : ¬ (cfg.orbAddr = cfg.dustAddr) := fun e => hd.dust e.symm
        by_cases h2 : d = t.dstDenom
        · subst h2; simp [hne]
        · simp [h2, hne]
      · by_cases h3 : a = cfg.dustAddr
        · subst h3
          by_cases h2 : d = t.dstDenom
          · subst h2; simp [h1, hd.dust]; omega
          · simp [h1, h2]
        · simp [h1, h3]
    simp [Pert.ap, c0, P₂, hbank]
  have ok1 : Ok P₁ cfg t.dstDenom := ⟨rfl, fun _ => rfl, fun _ => rfl, fun _ => rfl, fun _ _ _ => rfl, k1⟩
  have ok2 : Ok P₂ cfg t.dstDenom := by
    have hne : ¬ (cfg.orbAddr = cfg.dustAddr) := fun e => hd.dust e.symm
    refine ⟨?_, ?_, ?_, ?_, ?_, k2⟩
    · simp [P₂, extraAfter, hne]
    · intro d; simp [P₂, extraAfter, hd.cctp.1, hd.cctp.2]
    · intro d; simp [P₂, extraAfter, hd.ftf.1, hd.ftf.2]
    · intro d; simp [P₂, extraAfter, hd.transfer.1, hd.transfer.2]
    · intro pp cc d; simp [P₂, extraAfter, (hd.escrow pp cc).1, (hd.escrow pp cc).2]
  have igp1 : ∀ e, IgpOk P₁ cfg e := fun _ _ _ _ _ _ _ => rfl
  have igp2 : ∀ e : ExtState, e.hooks = w.ext.hooks → IgpOk P₂ cfg e := by
    intro e he idenom dom r pr ov hi
    rw [he] at hi
    rcases higp idenom dom r pr ov hi with h | h
    · subst h
      have hne : ¬ (cfg.orbAddr = cfg.dustAddr) := fun e => hd.dust e.symm
      simp [P₂, extraAfter, hne]
    · simp only [P₂, extraAfter, true_and]
      split
      · exact h
      · have : ¬ (cfg.orbAddr = cfg.dustAddr) := fun e => hd.dust e.symm
        simp [this]
  -- unfold both executions down to the wrapped application
  have hblock : blockibcCheck (ctxOf (withExtra cfg w ε)) pkt = blockibcCheck (ctxOf w) pkt := rfl
  unfold ibcRecv stackOnRecv mwOnRecv
  simp only [hblock]
  cases blockibcCheck (ctxOf w) pkt with
  | err e => exact ⟨rfl, rfl, fun h => by simp [Ack.isSuccess] at h⟩
  | panic e => exact ⟨rfl, rfl, fun h => by simp [Ack.isSuccess] at h⟩
  | ok u =>
    simp only
    split
    · exact ⟨rfl, rfl, fun h => by simp [Ack.isSuccess] at h⟩
    · split
      · exact ⟨rfl, rfl, fun h => by simp [Ack.isSuccess] at h⟩
      · split
        · exact ⟨rfl, rfl, fun h => by simp [Ack.isSuccess] at h⟩
        · simp only [ha, hh, hh', show (withExtra cfg w ε).orb = w.orb from rfl]
          rw [hc1, hc1', comm_wrappedApp P₁ cfg π t.dstDenom c0 pkt ok1, comm_wrappedApp P₂ cfg π t.dstDenom c0 pkt ok2]
          cases hw : wrappedApp (appWiring cfg π) noFaults c0 pkt with
          | err e => exact ⟨rfl, rfl, fun h => by simp [Res.map, Ack.isSuccess] at h⟩
          | panic e => exact ⟨rfl, rfl, fun h => by simp [Res.map, Ack.isSuccess] at h⟩
          | ok c2 =>
            simp only [Res.map]
            have hhook2 : c2.ext.hooks = w.ext.hooks := by
              unfold wrappedApp at hw
              obtain ⟨cx, hcx, hw⟩ := Res.bind_eq_ok.mp hw
              rw [ics20_hook_same hw, call_ext hcx]
            simp only [comm_processPayload P₁ cfg π w.orb c2 t p ok1 (igp1 _), comm_processPayload P₂ cfg π w.orb c2 t p ok2 (igp2 _ hhook2)]
            cases hp : processPayload (appWiring cfg π) noFaults w.orb c2 t p with
            | err e => exact ⟨rfl, rfl, fun h => by simp [Res.map, Ack.isSuccess] at h⟩
            | panic e => exact ⟨rfl, rfl, fun h => by simp [Res.map, Ack.isSuccess] at h⟩
            | ok r =>
              obtain ⟨c3, o3⟩ := r
              simp only [Res.map, liftP2, Ack.isSuccess, ↓reduceIte]
              refine ⟨trivial, trivial, fun _ => ⟨rfl, rfl, ?_⟩⟩
              intro a d
              simp only [Pert.ap_bal, P₁, P₂, Nat.add_zero]

end Orbiter.C11
