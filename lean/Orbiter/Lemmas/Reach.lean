/-
  Every operation preserves the store invariant (`OrbState.Inv`); hence it holds in every state reachable
  from a state that satisfies it (the empty store, or any state `initGenesis` produced from one).
-/
import Orbiter.Lemmas.Inv
import Orbiter.Props.C12
namespace Orbiter

theorem transfer_validate_ok {t : TransferAttrs} (h : t.validate = .ok ()) :
    crossChainValid t.srcProtocol t.srcCounterparty = true ∧ coinValid t.srcDenom t.srcAmount = true ∧ t.srcAmount > 0 ∧
    coinValid t.dstDenom t.dstAmount = true ∧ t.dstAmount > 0 := by
  unfold TransferAttrs.validate at h
  split at h
  · cases h
  · rename_i h1
    split at h
    · cases h
    · rename_i h2
      split at h
      · cases h
      · rename_i h3
        split at h
        · cases h
        · rename_i h4
          split at h
          · cases h
          · rename_i h5
            exact ⟨by simpa using h1, by simpa using h2, by omega, by simpa using h4, by omega⟩

theorem forwarder_ok_transfer_valid {wr : Wiring} {φ : Faults} {o : OrbState} {c c' : Ctx} {t : TransferAttrs} {f : Forwarding}
    (h : forwarderHandle wr φ o c t f = .ok c') : t.validate = .ok () := by
  unfold forwarderHandle at h
  obtain ⟨u, hv, _⟩ := Res.bind_eq_ok.mp h
  cases hq : (f.validate >>= fun _ => t.validate) with
  | err e => simp [hq, Res.mapErr] at hv
  | panic e => simp [hq, Res.mapErr] at hv
  | ok u' =>
    obtain ⟨_, _, ht⟩ := Res.bind_eq_ok.mp hq
    cases u'
    exact ht

/-- Receiving preserves the invariant. -/
theorem ibcRecv_inv (wr : Wiring) (φ : Faults) (w : World) (pkt : Packet) (hi : w.orb.Inv) : (ibcRecv wr φ w pkt).orb.Inv := by
  cases hs : (ibcRecv wr φ w pkt).ack.isSuccess with
  | false => rw [C12.c12_refused_unchanged wr φ w pkt hs]; exact hi
  | true =>
    have he := ibcRecv_success hs
    have hs' := hs
    rw [he] at hs'
    rcases mwOnRecv_success_cases hs' with ⟨hno, _⟩ | ⟨t, p, ha⟩
    · rw [C12.c12_foreign_unchanged wr φ w pkt hno]; exact hi
    · obtain ⟨c1, c2, c3, t3, _, _, hd, _⟩ := ibcRecv_success_dispatch hs ha
      obtain ⟨c4, f, _, _, _, hfw, ho⟩ := dispatchPayload_ok hd
      rw [ho]
      obtain ⟨_, h2, h3, h4, h5⟩ := transfer_validate_ok (forwarder_ok_transfer_valid hfw)
      simp only [coinValid, Bool.and_eq_true] at h2 h4
      exact updateStats_inv w.orb t3 f hi h3 h5 (validDenom_ne_empty h2.1) (validDenom_ne_empty h4.1)

theorem setPausedProtocol_inv {o o' : OrbState} {p : Int} (hi : o.Inv) (h : setPausedProtocol o p = .ok o') : o'.Inv := by
  have hv : protocolValid p = true := by
    unfold setPausedProtocol at h
    split at h
    · cases h
    · rename_i hv; simpa using hv
  obtain ⟨hc, rfl⟩ := setPausedProtocol_spec h
  refine ⟨nodup_insertBy intLt _ _ (by simpa using hc) hi.pp_nodup, ?_, hi.pc_nodup, hi.pc_valid, hi.pa_nodup, hi.pa_valid,
    hi.amt_keys, hi.amt_valid, hi.cnt_keys, hi.cnt_valid⟩
  intro q hq
  rcases (mem_insertBy intLt p q o.pausedProtocols).mp hq with rfl | h
  · exact hv
  · exact hi.pp_valid q h

theorem setUnpausedProtocol_inv {o o' : OrbState} {p : Int} (hi : o.Inv) (h : setUnpausedProtocol o p = .ok o') : o'.Inv := by
  obtain ⟨_, rfl⟩ := setUnpausedProtocol_spec h
  exact ⟨List.Nodup.erase _ hi.pp_nodup, fun q hq => hi.pp_valid q (List.mem_of_mem_erase hq), hi.pc_nodup, hi.pc_valid,
    hi.pa_nodup, hi.pa_valid, hi.amt_keys, hi.amt_valid, hi.cnt_keys, hi.cnt_valid⟩

theorem setPausedCrossChain_inv {o o' : OrbState} {p : Int} {c : String} (hi : o.Inv) (h : setPausedCrossChain o p c = .ok o') : o'.Inv := by
  obtain ⟨hc, hv, rfl⟩ := setPausedCrossChain_spec h
  refine ⟨hi.pp_nodup, hi.pp_valid, nodup_insertBy ccLt _ _ (by simpa using hc) hi.pc_nodup, ?_, hi.pa_nodup, hi.pa_valid,
    hi.amt_keys, hi.amt_valid, hi.cnt_keys, hi.cnt_valid⟩
  intro q hq
  rcases (mem_insertBy ccLt (p, c) q o.pausedCrossChains).mp hq with rfl | h
  · exact hv
  · exact hi.pc_valid q h

theorem setUnpausedCrossChain_inv {o o' : OrbState} {p : Int} {c : String} (hi : o.Inv) (h : setUnpausedCrossChain o p c = .ok o') : o'.Inv := by
  obtain ⟨_, rfl⟩ := setUnpausedCrossChain_spec h
  exact ⟨hi.pp_nodup, hi.pp_valid, List.Nodup.erase _ hi.pc_nodup, fun q hq => hi.pc_valid q (List.mem_of_mem_erase hq),
    hi.pa_nodup, hi.pa_valid, hi.amt_keys, hi.amt_valid, hi.cnt_keys, hi.cnt_valid⟩

theorem setPausedAction_inv {o o' : OrbState} {a : Int} (hi : o.Inv) (h : setPausedAction o a = .ok o') : o'.Inv := by
  obtain ⟨hc, hv, rfl⟩ := setPausedAction_spec h
  refine ⟨hi.pp_nodup, hi.pp_valid, hi.pc_nodup, hi.pc_valid, nodup_insertBy intLt _ _ (by simpa using hc) hi.pa_nodup, ?_,
    hi.amt_keys, hi.amt_valid, hi.cnt_keys, hi.cnt_valid⟩
  intro q hq
  rcases (mem_insertBy intLt a q o.pausedActions).mp hq with rfl | h
  · exact hv
  · exact hi.pa_valid q h

theorem setUnpausedAction_inv {o o' : OrbState} {a : Int} (hi : o.Inv) (h : setUnpausedAction o a = .ok o') : o'.Inv := by
  obtain ⟨_, rfl⟩ := setUnpausedAction_spec h
  exact ⟨hi.pp_nodup, hi.pp_valid, hi.pc_nodup, hi.pc_valid, List.Nodup.erase _ hi.pa_nodup,
    fun q hq => hi.pa_valid q (List.mem_of_mem_erase hq), hi.amt_keys, hi.amt_valid, hi.cnt_keys, hi.cnt_valid⟩

theorem forwarderPause_inv {b : Bool} {o o' : OrbState} {p : Int} {ids : List String} (hi : o.Inv)
    (h : forwarderPause b o p ids = .ok o') : o'.Inv := by
  unfold forwarderPause at h
  split at h
  · cases h
  · split at h
    · cases b
      · exact setUnpausedProtocol_inv hi h
      · exact setPausedProtocol_inv hi h
    · split at h
      · cases h
      · refine Res.foldlM_inv _ OrbState.Inv ?_ ids o o' hi h
        intro b1 a b2 hb hs
        cases b
        · simp only [Bool.false_eq_true, ↓reduceIte] at hs; exact setUnpausedCrossChain_inv hb hs
        · simp only [↓reduceIte] at hs; exact setPausedCrossChain_inv hb hs

theorem msgStep_inv {cfg : Cfg} {φ : Faults} {o o' : OrbState} {m : Msg} {evs : List String} {rq : List Req} (hi : o.Inv)
    (h : msgStep cfg φ o m = .ok (o', evs, rq)) : o'.Inv := by
  unfold msgStep at h
  split at h
  · cases h
  · cases m with
    | updateParams s n =>
      simp only [Res.ok.injEq, Prod.mk.injEq] at h
      obtain ⟨rfl, _, _⟩ := h
      exact ⟨hi.pp_nodup, hi.pp_valid, hi.pc_nodup, hi.pc_valid, hi.pa_nodup, hi.pa_valid, hi.amt_keys, hi.amt_valid, hi.cnt_keys, hi.cnt_valid⟩
    | replaceDepositForBurn s a b c d => simp only at h; split at h <;> cases h
    | pauseProtocol s pid =>
      simp only at h
      cases hp : protocolIdFromString pid with
      | none => simp [hp] at h
      | some p =>
        simp only [hp] at h
        obtain ⟨o1, hf, h⟩ := Res.bind_eq_ok.mp h
        obtain ⟨_, _, h⟩ := Res.bind_eq_ok.mp h
        cases h
        exact forwarderPause_inv hi hf
    | unpauseProtocol s pid =>
      simp only at h
      cases hp : protocolIdFromString pid with
      | none => simp [hp] at h
      | some p =>
        simp only [hp] at h
        obtain ⟨o1, hf, h⟩ := Res.bind_eq_ok.mp h
        obtain ⟨_, _, h⟩ := Res.bind_eq_ok.mp h
        cases h
        exact forwarderPause_inv hi hf
    | pauseCrossChains s pid ids =>
      simp only at h
      cases hp : protocolIdFromString pid with
      | none => simp [hp] at h
      | some p =>
        simp only [hp] at h
        split at h
        · cases h
        · obtain ⟨o1, hf, h⟩ := Res.bind_eq_ok.mp h
          obtain ⟨_, _, h⟩ := Res.bind_eq_ok.mp h
          cases h
          exact forwarderPause_inv hi hf
    | unpauseCrossChains s pid ids =>
      simp only at h
      cases hp : protocolIdFromString pid with
      | none => simp [hp] at h
      | some p =>
        simp only [hp] at h
        split at h
        · cases h
        · obtain ⟨o1, hf, h⟩ := Res.bind_eq_ok.mp h
          obtain ⟨_, _, h⟩ := Res.bind_eq_ok.mp h
          cases h
          exact forwarderPause_inv hi hf
    | pauseAction s aid =>
      simp only at h
      cases hp : actionIdFromString aid with
      | none => simp [hp] at h
      | some a =>
        simp only [hp] at h
        obtain ⟨o1, hf, h⟩ := Res.bind_eq_ok.mp h
        obtain ⟨_, _, h⟩ := Res.bind_eq_ok.mp h
        cases h
        exact setPausedAction_inv hi hf
    | unpauseAction s aid =>
      simp only at h
      cases hp : actionIdFromString aid with
      | none => simp [hp] at h
      | some a =>
        simp only [hp] at h
        obtain ⟨o1, hf, h⟩ := Res.bind_eq_ok.mp h
        obtain ⟨_, _, h⟩ := Res.bind_eq_ok.mp h
        cases h
        exact setUnpausedAction_inv hi hf

/-- Every operation preserves the invariant. -/
theorem step_inv (wr : Wiring) (φ : Faults) (w : World) (op : Op) (hi : w.orb.Inv) : (step wr φ w op).2.orb.Inv := by
  cases op with
  | recv pkt => exact ibcRecv_inv wr φ w pkt hi
  | deposit a d n => exact hi
  | env e => exact hi
  | reimport => exact (reimportStep_equiv w.orb hi).1
  | msg m =>
    simp only [step]
    cases hm : msgStep wr.cfg φ w.orb m with
    | err e => exact hi
    | panic e => exact hi
    | ok r =>
      obtain ⟨o', evs, rq⟩ := r
      exact msgStep_inv hi hm

theorem run_inv (wr : Wiring) (w : World) (ops : List Op) (hi : w.orb.Inv) : (run wr w ops).orb.Inv := by
  unfold run
  induction ops generalizing w with
  | nil => exact hi
  | cons op rest ih => exact ih _ (step_inv wr noFaults w op hi)

end Orbiter
